------------------------------- MODULE Batch -------------------------------
(***************************************************************************)
(* ECAgent.Batching: ParameterList (declaration machine and Cartesian       *)
(* product), batch_run (a pool of workers consuming the task list, results  *)
(* collected in completion order, failures surfacing to the caller) and     *)
(* grid_search (per-combination aggregates as exact rationals and the       *)
(* selection loop).  Properties C14, C15, C16 are stated at the end.        *)
(*                                                                         *)
(* Which parts run is chosen by the constant Part, so that each property    *)
(* has its own small state space.                                           *)
(***************************************************************************)
EXTENDS Integers, Sequences, FiniteSets, TLC

CONSTANTS Part,         \* "params" | "pool" | "search"
          PNames,       \* parameter names offered by Next                         (params)
          Shapes,       \* value shapes offered by Next                             (params)
          MaxDecl,      \* at most this many parameters declared at once            (params)
          NTasks,       \* tasks 1..NTasks                                          (pool)
          Workers,      \* set of worker names; one worker = serial execution       (pool)
          FailTasks,    \* tasks whose execution raises                             (pool)
          NCombos, NReps, ScoreVals,   \*                                           (search)
          Sentinel,     \* stands for sys.maxsize in the selection loop             (search)
          BestInit,     \* "first" = the code (after fix f5e00b1) | "sentinel" = original (negative control)
          ErrorPolicy   \* "raise" = the code | "drop" = a failing execution is silently skipped (negative control)

Range(s)   == {s[i] : i \in 1..Len(s)}
RECURSIVE SumTo(_, _)
SumTo(s, k)   == IF k = 0 THEN 0 ELSE s[k] + SumTo(s, k - 1)
RECURSIVE SumSqTo(_, _)
SumSqTo(s, k) == IF k = 0 THEN 0 ELSE s[k] * s[k] + SumSqTo(s, k - 1)
SeqSum(s)   == SumTo(s, Len(s))
SeqSumSq(s) == SumSqTo(s, Len(s))
SeqMin(s)  == CHOOSE x \in Range(s) : \A y \in Range(s) : x <= y
SeqMax(s)  == CHOOSE x \in Range(s) : \A y \in Range(s) : x >= y
Count(s, x) == Cardinality({i \in 1..Len(s) : s[i] = x})
SameBag(s, t) == Len(s) = Len(t) /\ \A x \in Range(s) \cup Range(t) : Count(s, x) = Count(t, x)

-----------------------------------------------------------------------------
(***************************************************************************)
(* C14: parameter lists.  A declared value is described by its shape; what  *)
(* it contributes to the product is ShapeVals(shape): scalars and strings   *)
(* are single values, re-iterable collections contribute their elements.    *)
(***************************************************************************)
ShapeVals(sh) ==
    CASE sh = "scalar5"   -> <<"i5">>
      [] sh = "float35"   -> <<"f3.5">>
      [] sh = "none"      -> <<"None">>
      [] sh = "str_xy"    -> <<"sxy">>
      [] sh = "str_empty" -> <<"s">>
      [] sh = "empty"     -> <<>>
      [] sh = "list1"     -> <<"i1">>
      [] sh = "list11"    -> <<"i1", "i1">>
      [] sh = "list12"    -> <<"i1", "i2">>
      [] sh = "list321"   -> <<"i3", "i2", "i1">>
      [] sh = "tuple34"   -> <<"i3", "i4">>
      [] sh = "range2"    -> <<"i0", "i1">>
      [] sh = "range0"    -> <<>>
      [] sh = "np78"      -> <<"i7", "i8">>
      [] sh = "strs"      -> <<"sab", "sc">>
      [] sh = "list_n1"   -> <<"None", "i1">>          \* collections whose first element is None / falsy / empty
      [] sh = "list_0f"   -> <<"i0", "b0", "i2">>
      [] sh = "tuple_e"   -> <<"s", "sx">>
      [] sh = "list_tt"   -> <<"ti1_i2", "ti3_i4">>    \* elements that are tuples stay tuples; numbers keep their type
      [] sh = "list_mixnum" -> <<"f0.5", "i1", "i2">>

VARIABLES decl          \* Seq([name, shape]) in declaration order                 (ParameterList._parameters)

Declared(n) == \E i \in 1..Len(decl) : decl[i].name = n

\* what build() must return: every combination once, first-declared parameter slowest;
\* a combination is the sequence of <<name, value>> in declaration order
\* d: Seq([name, vals])
RECURSIVE ProductV(_)
ProductV(d) == IF d = <<>> THEN << <<>> >>
               ELSE LET rest == TLCEval(ProductV(Tail(d)))      \* TLCEval: computed once, not at every application
                        vals == d[1].vals
                    IN TLCEval([k \in 1..(Len(vals) * Len(rest)) |->
                          << <<d[1].name, vals[((k - 1) \div Len(rest)) + 1]>> >> \o rest[((k - 1) % Len(rest)) + 1]])
Product(d) == ProductV([i \in 1..Len(d) |-> [name |-> d[i].name, vals |-> ShapeVals(d[i].shape)]])

\* the code: itertools.product over the per-parameter (name, value) lists = left fold
RECURSIVE AlgProduct(_, _)
AlgProduct(acc, d) ==
    IF d = <<>> THEN acc
    ELSE LET vals == ShapeVals(d[1].shape)
             step == [k \in 1..(Len(acc) * Len(vals)) |->
                        Append(acc[((k - 1) \div Len(vals)) + 1], <<d[1].name, vals[((k - 1) % Len(vals)) + 1]>>)]
         IN AlgProduct(step, Tail(d))

Declare(n, sh)       == ~Declared(n) /\ decl' = Append(decl, [name |-> n, shape |-> sh])
DeclareRejected(n)   == UNCHANGED decl          \* KeyError (duplicate) / AttributeError (name is not a string)
RemoveParam(n)       == Declared(n) /\ decl' = SelectSeq(decl, LAMBDA r : r.name # n)
RemoveParamRejected(n) == ~Declared(n) /\ UNCHANGED decl     \* KeyError
Build                == UNCHANGED decl

RECURSIVE SizeOf(_)
SizeOf(d) == IF d = <<>> THEN 1 ELSE Len(ShapeVals(d[1].shape)) * SizeOf(Tail(d))
C14_AlgIsProduct == AlgProduct(<< <<>> >>, decl) = Product(decl)
C14_Size      == Len(Product(decl)) = SizeOf(decl)
C14_EveryName == \A k \in 1..Len(Product(decl)) :
                    [i \in 1..Len(decl) |-> Product(decl)[k][i][1]] = [i \in 1..Len(decl) |-> decl[i].name]
\* lexicographic in the value indices: combination k and k+1 differ first at some position, where k's value comes earlier
C14_Order     == \A k \in 1..(Len(Product(decl)) - 1) :
                    LET a == Product(decl)[k]  b == Product(decl)[k + 1] IN
                    \/ Len(decl) = 0
                    \/ \E i \in 1..Len(decl) :
                          /\ \A j \in 1..(i - 1) : a[j] = b[j]
                          /\ \A j \in (i + 1)..Len(decl) :          \* everything after the changing position restarts
                                b[j][2] = ShapeVals(decl[j].shape)[1]

-----------------------------------------------------------------------------
(***************************************************************************)
(* C15: the pool.  tasks 1..NTasks are handed out in order; a worker        *)
(* finishes whenever it likes; results are collected in completion order.   *)
(* A failing task raises: the caller gets the error instead of a result     *)
(* list.                                                                    *)
(***************************************************************************)
VARIABLES next,         \* next task to hand out
          busy,         \* worker -> task (0 = idle)
          results,      \* Seq(task): results in the order they were collected (each result carries its task as a ghost)
          error,        \* the error that reached the caller
          failedAny     \* history: some execution raised

PoolInit == next = 1 /\ busy = [w \in Workers |-> 0] /\ results = <<>> /\ error = FALSE /\ failedAny = FALSE
Dispatch(w) == /\ ~error /\ busy[w] = 0 /\ next <= NTasks
               /\ busy' = [busy EXCEPT ![w] = next] /\ next' = next + 1
               /\ UNCHANGED <<results, error, failedAny>>
Finish(w)   == /\ ~error /\ busy[w] # 0 /\ busy[w] \notin FailTasks
               /\ results' = Append(results, busy[w]) /\ busy' = [busy EXCEPT ![w] = 0]
               /\ UNCHANGED <<next, error, failedAny>>
Fail(w)     == /\ ~error /\ busy[w] # 0 /\ busy[w] \in FailTasks
               /\ error' = (ErrorPolicy = "raise") /\ failedAny' = TRUE /\ busy' = [busy EXCEPT ![w] = 0]
               /\ UNCHANGED <<next, results>>
Done        == error \/ (next > NTasks /\ \A w \in Workers : busy[w] = 0)

C15_ExactlyOnce == (Done /\ ~error) => SameBag(results, [i \in 1..NTasks |-> i])
C15_NoDup       == \A i, j \in 1..Len(results) : i # j => results[i] # results[j]
C15_SerialOrder == (Cardinality(Workers) = 1 /\ Done /\ ~error) => results = [i \in 1..NTasks |-> i]
C15_ErrorSurfaces == (Done /\ failedAny) => error
C15_NoErrorInvented == error => failedAny

\* What one execution returns, for the self-identifying fixture model of the conformance driver
\* (harness/drivers/batch.py): a system completes the model at timestep `stop`; a collector with window
\* [cstart, forever], frequency cfreq, registered after it, records <<sig, t>>; the run is cut at `limit` steps.
RunRecords(sig, stop, cstart, cfreq, limit) ==
    LET last == (IF stop < limit THEN stop ELSE limit) - 1
        ts   == {t \in 0..last : t >= cstart /\ (t - cstart) % cfreq = 0}
    IN TLCEval([k \in 1..Cardinality(ts) |->
          <<sig, CHOOSE t \in ts : Cardinality({u \in ts : u < t}) = k - 1>>])

-----------------------------------------------------------------------------
(***************************************************************************)
(* C16: grid search.  score[i][r] is the score of repetition r of           *)
(* combination i.  Aggregates are exact rationals <<num, den>>, den > 0.    *)
(***************************************************************************)
Modes == {"MIN", "MAX", "MIN_MEAN", "MAX_MEAN", "MIN_SUM", "MAX_SUM", "MIN_VARIANCE", "MAX_VARIANCE"}
IsMin(mode) == mode \in {"MIN", "MIN_MEAN", "MIN_SUM", "MIN_VARIANCE"}
Agg(mode, r) ==
    LET n == Len(r) IN
    CASE mode = "MIN" -> <<SeqMin(r), 1>>
      [] mode = "MAX" -> <<SeqMax(r), 1>>
      [] mode \in {"MIN_MEAN", "MAX_MEAN"} -> <<SeqSum(r), n>>
      [] mode \in {"MIN_SUM", "MAX_SUM"}   -> <<SeqSum(r), 1>>
      [] mode \in {"MIN_VARIANCE", "MAX_VARIANCE"} -> <<n * SeqSumSq(r) - SeqSum(r) * SeqSum(r), n * (n - 1)>>
Less(a, b)  == a[1] * b[2] < b[1] * a[2]
Better(mode, a, b) == IF IsMin(mode) THEN Less(a, b) ELSE Less(b, a)       \* a strictly better than b
\* what C16 demands: the FIRST combination whose aggregate is optimal
BestIdx(mode, sc) ==
    CHOOSE i \in 1..Len(sc) : /\ \A j \in 1..Len(sc) : ~Better(mode, Agg(mode, sc[j]), Agg(mode, sc[i]))
                              /\ \A j \in 1..(i - 1) : Better(mode, Agg(mode, sc[i]), Agg(mode, sc[j]))
\* the code's selection loop
RECURSIVE Scan(_, _, _, _, _)
Scan(mode, sc, i, idx, target) ==
    IF i > Len(sc) THEN idx
    ELSE LET a == Agg(mode, sc[i])
             take == \/ (BestInit = "first" /\ idx = 0)
                     \/ Better(mode, a, target)
         IN IF take THEN Scan(mode, sc, i + 1, i, a) ELSE Scan(mode, sc, i + 1, idx, target)
ScanResult(mode, sc) ==
    LET idx == Scan(mode, sc, 1, 0, IF IsMin(mode) THEN <<Sentinel, 1>> ELSE <<-Sentinel, 1>>)
    IN IF idx = 0 THEN Len(sc) ELSE idx            \* results[-1]: the last one

VARIABLES mode, score
SearchInit == mode \in Modes /\ score \in [1..NCombos -> [1..NReps -> ScoreVals]]
C16_Best   == ScanResult(mode, score) = BestIdx(mode, score)

-----------------------------------------------------------------------------
vars == <<decl, next, busy, results, error, failedAny, mode, score>>

Init == /\ decl = <<>>
        /\ IF Part = "pool" THEN PoolInit
           ELSE next = 1 /\ busy = << >> /\ results = <<>> /\ error = FALSE /\ failedAny = FALSE
        /\ IF Part = "search" THEN SearchInit ELSE mode = "MIN" /\ score = << >>

OfferDeclare(n, sh) == Part = "params" /\ Len(decl) < MaxDecl /\ Declare(n, sh)
                       /\ UNCHANGED <<next, busy, results, error, failedAny, mode, score>>
OfferDeclareRejected(n) == Part = "params" /\ Declared(n) /\ DeclareRejected(n)
                           /\ UNCHANGED <<next, busy, results, error, failedAny, mode, score>>
OfferRemove(n) == Part = "params" /\ RemoveParam(n) /\ UNCHANGED <<next, busy, results, error, failedAny, mode, score>>
OfferRemoveRejected(n) == Part = "params" /\ RemoveParamRejected(n)
                          /\ UNCHANGED <<next, busy, results, error, failedAny, mode, score>>
PoolStep(w) == Part = "pool" /\ (Dispatch(w) \/ Finish(w) \/ Fail(w)) /\ UNCHANGED <<decl, mode, score>>

Next == \/ \E n \in PNames, sh \in Shapes : OfferDeclare(n, sh)
        \/ \E n \in PNames : OfferDeclareRejected(n)
        \/ \E n \in PNames : OfferRemove(n)
        \/ \E n \in PNames : OfferRemoveRejected(n)
        \/ \E w \in Workers : PoolStep(w)

Spec == Init /\ [][Next]_vars

\* Liveness of a batch: with every worker weakly fair (a busy worker eventually finishes or fails, an idle one eventually takes the
\* next task) the batch ends - with all results or with the error.  On the implementation side a batch that does not end is a
\* runaway program (its fresh interpreter is given three attempts).
FairSpec == Spec /\ \A w \in Workers : WF_vars(PoolStep(w))
C15_BatchEnds == (Part = "pool") => <>Done
=============================================================================
