------------------------------ MODULE MC_World ------------------------------
(* Small-constant instances of World for TLC; one .cfg per property/tier. *)
EXTENDS World

Plain        == [kind |-> "plain", ext |-> <<0, 0, 0>>, wrap |-> FALSE]
Space(e, w)  == [kind |-> "space", ext |-> e, wrap |-> w]
Grid(e, w)   == [kind |-> "grid", ext |-> e, wrap |-> w]

M1 == {"m1"}
M2 == {"m1", "m2"}
Ag_xxy  == {<<"x", 1>>, <<"x", 2>>, <<"y", 1>>}
Ag_xy   == {<<"x", 1>>, <<"y", 1>>}
Ag_xyz  == {<<"x", 1>>, <<"y", 1>>, <<"z", 1>>}
Ag_xxyz == {<<"x", 1>>, <<"x", 2>>, <<"y", 1>>, <<"z", 1>>}
T_A  == {"A"}
T_AB == {"A", "B"}
T_0  == {}
NoDev == {}
DevF1 == {"F1"}
DevF3 == {"F3"}
DevF6 == {"F6"}
DevAll == {"F1", "F3", "F6"}
DevRaw == {"RAW"}
DevEvery == {"F1", "F3", "F6", "RAW"}
Mech == {"mech"}

K_plain == {Plain}
K_c04   == {Plain, Space(<<8, 0, 4>>, FALSE), Grid(<<2, 3, 0>>, FALSE)}
K_c08   == {Grid(<<3, 1, 0>>, FALSE), Grid(<<3, 2, 0>>, TRUE), Space(<<8, 4, 0>>, FALSE), Space(<<6, 0, 4>>, TRUE)}
K_c08t  == K_c08 \cup {Grid(<<1, 2, 3>>, FALSE), Grid(<<2, 3, 1>>, TRUE), Space(<<4, 8, 12>>, TRUE), Grid(<<0, 2, 0>>, FALSE)}
K_c12   == {Grid(<<4, 2, 0>>, FALSE), Space(<<8, 4, 0>>, FALSE)}
K_c12w  == {Grid(<<4, 2, 0>>, TRUE), Space(<<8, 4, 0>>, TRUE)}
Tags0   == {0}
Tags017 == {0, 1, 7}
Ser1    == {1}
Ser12   == {1, 2}
None_   == {}
C_c04   == {-1, 0, 2, 9}
C_c08   == {-1, 0, 2, 9}
D_c08   == {-9, -1, 0, 1, 3, 10}
C_c12   == {-1, 0, 1, 3, 8}
L_c12   == {-1, 0, 1, 2}

C_mbt   == {-1, 0, 9}
D_mbt   == {-9, 1, 10}
C_c12q  == {-1, 0, 3, 8}
L_c12q  == {-1, 0, 2}
K_mbt8  == {Grid(<<3, 2, 0>>, TRUE), Space(<<8, 0, 4>>, FALSE)}
ClassicDev == \A a \in DOMAIN agents : TRUE
MirrorAlways == \A m \in DOMAIN world : \A T \in Types : pool[m][T] = Ideal(m, T)
Depth10 == TLCGet("level") <= 10
Depth9  == TLCGet("level") <= 9
Depth8  == TLCGet("level") <= 8
Depth7  == TLCGet("level") <= 7
=============================================================================
