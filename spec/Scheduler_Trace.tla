--------------------------- MODULE Scheduler_Trace ---------------------------
(***************************************************************************)
(* Trace specification for Scheduler: every event recorded from the real   *)
(* ECAgent objects must be a step that Scheduler allows, with the logged    *)
(* outcome and the logged post-state.  The registry operations are          *)
(* Scheduler's own actions; a timestep is judged with Scheduler's own       *)
(* obligations (RunOK while it is in progress, StepOK when it ends), i.e.   *)
(* exactly as loosely as properties C01/C02/C05/C06 are stated.             *)
(*                                                                         *)
(* One TLC run validates a whole batch: tid ranges over the traces.         *)
(***************************************************************************)
EXTENDS Scheduler, Json, IOUtils, TLCExt

Traces == JsonDeserialize(IOEnv.TRACE_FILE).traces

VARIABLES tid, l, dev
tvars == <<vars, tid, l, dev>>

Ev == Traces[tid][l]

Obj(x) == <<x[1], x[2]>>
PairSet(s) == {<<s[i][1], s[i][2]>> : i \in 1..Len(s)}

\* the projection the driver logs after every call, against the state AFTER the step (passed explicitly)
ObsOK(o, R, c, st) ==
    /\ o.clock = c /\ o.mclock = c
    /\ o.running = (st = "RUNNING") /\ o.truthy = (st = "RUNNING")
    /\ PairSet(o.registered) = {<<R[i].obj[1], R[i].obj[2]>> : i \in DOMAIN R}

Fresh == [active |-> TRUE, snap |-> queue, idx |-> 0, ran |-> <<>>, start |-> Range(queue),
          removed |-> {}, added |-> {}, completer |-> <<>>]

Win(e) == [start |-> e.start, end |-> e.end, freq |-> e.freq]

InStepOrBetween(t) == IF step.active THEN t = clock ELSE Between

TrAdd ==
    /\ Ev.op = "add_system" /\ InStepOrBetween(Ev.t)
    /\ \/ Ev.out = "ok" /\ AddSystem(Obj(Ev.obj), Ev.prio, Win(Ev), NopScript)
       \/ Ev.out = "KeyError" /\ AddSystemRejected(Obj(Ev.obj))
    /\ ObsOK(Ev.obs, reg', clock', status')

TrRemove ==
    /\ Ev.op = "remove_system" /\ InStepOrBetween(Ev.t)
    /\ \/ Ev.out = "ok" /\ RemoveSystem(Ev.id)
       \/ Ev.out = "SystemNotFoundError" /\ RemoveSystemRejected(Ev.id)
    /\ ObsOK(Ev.obs, reg', clock', status')

TrComplete ==
    /\ Ev.op = "complete" /\ InStepOrBetween(Ev.t) /\ Ev.out = "ok"
    /\ Complete
    /\ ObsOK(Ev.obs, reg', clock', status')

\* Model.execute(n) / SystemManager.execute_systems(): Request(n), then BeginStep if the model runs
TrExecBegin ==
    /\ Ev.op = "exec_begin" /\ Between /\ Ev.n >= 1
    /\ IF status = "RUNNING"
       THEN pending' = Ev.n - 1 /\ step' = Fresh
       ELSE pending' = Ev.n /\ step' = step
    /\ UNCHANGED <<reg, queue, regOrder, clock, status>>

\* a system's execute() was entered at clock t
TrRun ==
    /\ Ev.op = "run" /\ step.active
    /\ LET o == Obj(Ev.obj)
           t == Ev.t IN
       IF t = clock
       THEN /\ RunOK(step, reg, status, clock, o)
            /\ step' = [step EXCEPT !.ran = Append(@, o)]
            /\ UNCHANGED <<reg, queue, regOrder, clock, status, pending>>
       ELSE \* the previous timestep(s) of this request ended: EndStep, (t-clock-1) x empty step, BeginStep
            /\ t > clock /\ pending >= t - clock /\ status = "RUNNING"
            /\ StepOK(step, reg, regOrder, status, clock)
            /\ \A c \in (clock + 1)..(t - 1) : StepOK(Fresh, reg, regOrder, status, c)
            /\ RunOK(Fresh, reg, status, t, o)
            /\ step' = [Fresh EXCEPT !.ran = <<o>>]
            /\ clock' = t /\ pending' = pending - (t - clock)
            /\ UNCHANGED <<reg, queue, regOrder, status>>

TrExecEnd ==
    /\ Ev.op = "exec_end" /\ (step.active \/ pending > 0)
    /\ IF step.active
       THEN /\ StepOK(step, reg, regOrder, status, clock)
            /\ IF status = "RUNNING"
               THEN /\ \A c \in (clock + 1)..(clock + pending) : StepOK(Fresh, reg, regOrder, status, c)
                    /\ clock' = clock + 1 + pending
               ELSE clock' \in {clock, clock + 1}      \* the completing request itself: left open (DESIGN 3.2)
            /\ Ev.out = "ok"
       ELSE \* the model was complete when the request was made
            /\ status = "COMPLETE" /\ clock' = clock
            /\ Ev.out = IF Ev.throw THEN "ModelCompleteError" ELSE "ok"
    /\ pending' = 0 /\ step' = Idle
    /\ UNCHANGED <<reg, queue, regOrder, status>>
    /\ ObsOK(Ev.obs, reg', clock', status')

TrExecReject ==      \* Model.execute(n) with a non-integer or non-positive n
    /\ Ev.op = "exec_reject" /\ Between
    /\ Ev.out = (IF Ev.kind \in {"zero", "neg"} THEN "ValueError" ELSE "TypeError")
    /\ UNCHANGED vars
    /\ ObsOK(Ev.obs, reg', clock', status')

\* model.systems[id] / model.systems[(id, True)]   (growth beyond the listed properties: exercised by `./check drift` only)
TrLookupSystem ==
    /\ Ev.op = "lookup_system" /\ UNCHANGED vars
    /\ IF Ev.id \in DOMAIN reg THEN Ev.out = "ok" /\ Obj(Ev.res) = reg[Ev.id].obj
       ELSE IF Ev.strict THEN Ev.out = "KeyError" ELSE Ev.out = "ok" /\ Obj(Ev.res) = <<"None", 0>>

TraceInit == /\ Init /\ tid \in 1..Len(Traces) /\ l = 1 /\ dev = {}

TraceNext == /\ l <= Len(Traces[tid]) /\ l' = l + 1 /\ UNCHANGED <<tid, dev>>
             /\ (TrAdd \/ TrRemove \/ TrComplete \/ TrExecBegin \/ TrRun \/ TrExecEnd \/ TrExecReject \/ TrLookupSystem)

TraceSpec == TraceInit /\ [][TraceNext]_tvars

Accepted == (l = Len(Traces[tid]) + 1) => PrintT(<<"ACCEPT", tid, dev>>)
Progress == PrintT(<<"AT", tid, l, ToString([reg |-> reg, regOrder |-> regOrder, clock |-> clock, status |-> status,
                                      pending |-> pending, step |-> step])>>)
=============================================================================
