\* C08: grid and continuous worlds, wrap on/off, placements, relative and absolute moves
SPECIFICATION Spec
CONSTANTS
  Models <- M1
  WorldKinds <- K_c08
  AgentObjs <- Ag_xy
  Types <- T_0
  TagVals <- Tags0
  Serials <- Ser1
  Coords <- C_c08
  Deltas <- D_c08
  Leeways <- None_
  Deviations <- NoDev
  Variants <- Mech
  Guests = FALSE
  TagTest = "isnone"
  BoxForm = "minmax"
INVARIANT C03_Mirror
INVARIANT C03_NoDupListing
INVARIANT C04_OnePerId
INVARIANT C04_EnvAgents
INVARIANT C04_LeaveEnabled
INVARIANT C08_Contained
INVARIANT C08_PosIffResidentSpatial
INVARIANT C08_Kernels
