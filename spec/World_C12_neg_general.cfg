\* negative control: a box that ignores the per-axis leeway
SPECIFICATION Spec
CONSTANTS
  Models <- M1
  WorldKinds <- K_c12
  AgentObjs <- Ag_xy
  Types <- T_0
  TagVals <- Tags0
  Serials <- Ser1
  Coords <- C_c12
  Deltas <- None_
  Leeways <- L_c12
  Deviations <- NoDev
  Variants <- Mech
  Guests = FALSE
  TagTest = "isnone"
  BoxForm = "general"
INVARIANT C12_AlgIsBox
