\* C19: 2 local libraries + the global one, ordinary / duplicate / NONE / reserved names, every history
SPECIFICATION Spec
CONSTANTS
  Libs = {"L1", "L2", "G"}
  Names = {"a", "b", "c", "NONE", "add_tag", "__class__", "x y"}
  ReservedNames = {"add_tag", "__class__"}
  ReservedPolicy = "reject"
INVARIANT C19_Dense
INVARIANT C19_Bijection
INVARIANT C19_NotBroken
PROPERTY C19_NextId
PROPERTY C19_Independent
