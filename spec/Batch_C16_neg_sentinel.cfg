\* negative control (defect D8): sentinel-initialised selection loop
SPECIFICATION Spec
CONSTANTS
  Part = "search"
  PNames = {"a", "b", "c"}
  Shapes = {"scalar5", "float35", "none", "str_xy", "str_empty", "empty", "list1", "list11", "list12", "list321", "tuple34", "range2", "range0", "np78", "strs"}
  MaxDecl = 3
  NTasks = 4
  Workers = {"w1", "w2", "w3"}
  FailTasks = {}
  NCombos = 3
  NReps = 2
  ScoreVals <- SV4
  Sentinel = 1
  BestInit = "sentinel"
  ErrorPolicy = "raise"
INVARIANT C16_Best
