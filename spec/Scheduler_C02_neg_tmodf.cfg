\* negative control: window test t % freq must violate C02_AlgIsDecl
SPECIFICATION Spec
CONSTANTS
  Objs <- Objs_ab
  Prios <- Prios_0
  Windows <- Win_C02_small
  Scripts <- Only_Nop
  MaxN = 3
  Iteration = "snapshot"
  InsertCmp = "gt"
  WindowTest = "tmodf"
CONSTRAINT ClockAtMost7
INVARIANT C02_AlgIsDecl
\* (only the property this control must refute is listed: with several violated properties TLC's workers
\*  would race for which one is reported first; the full list is checked on the right algorithm by the main cfg)
