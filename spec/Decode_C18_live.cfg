\* C18 liveness (decoding ends): every description with <= 2 systems and <= 2 agent groups of size 0..2 and every subset of the six hook kinds
SPECIFICATION FairSpec
CONSTANTS
  MaxSystems = 2
  MaxGroups = 2
  MaxN = 2
  AgentAdd = "each"
PROPERTY C18_Ends
