\* negative control: >= in the insertion loop must violate C01_Ordered
SPECIFICATION Spec
CONSTANTS
  Objs <- Objs_abca
  Prios <- Prios_m101
  Windows <- Only_AlwaysOn
  Scripts <- Only_Nop
  MaxN = 1
  Iteration = "snapshot"
  InsertCmp = "geq"
  WindowTest = "code"
CONSTRAINT ClockAtMost1
INVARIANT C01_Ordered
\* (only the property this control must refute is listed: with several violated properties TLC's workers
\*  would race for which one is reported first; the full list is checked on the right algorithm by the main cfg)
