---------------------------- MODULE KernelProofs ----------------------------
(***************************************************************************)
(* TLAPS proofs, for ALL integers, of the per-axis kernels that World.tla   *)
(* uses for C08 (the definitions are repeated verbatim from World.tla;      *)
(* `./check C08` compares the two texts).  TLC checks the same statements   *)
(* for extents 1..6 and deltas -14..14 (C08_Kernels); these theorems lift   *)
(* that part of the argument to unbounded parameters.  They say nothing     *)
(* about the code: the binding is the trace validation.                     *)
(***************************************************************************)
EXTENDS Integers, TLAPS

WMax(x, y)    == IF x >= y THEN x ELSE y
WMin(x, y)    == IF x <= y THEN x ELSE y
Hi(e, k)         == IF k = "grid" THEN e - 1 ELSE e              \* inclusive upper edge
Clamp(p, d, e, k) == WMax(WMin(p + d, Hi(e, k)), 0)
WrapTo(p, d, e)  == (p + d) % e                                  \* e > 0

THEOREM ClampContained ==
    \A p, d, e \in Int : \A k \in {"grid", "space"} :
        Hi(e, k) >= 0 => (0 <= Clamp(p, d, e, k) /\ Clamp(p, d, e, k) <= Hi(e, k))
  BY DEF Clamp, WMax, WMin, Hi

THEOREM ClampExactInside ==
    \A p, d, e \in Int : \A k \in {"grid", "space"} :
        (0 <= p + d /\ p + d <= Hi(e, k)) => Clamp(p, d, e, k) = p + d
  BY DEF Clamp, WMax, WMin, Hi

THEOREM ClampSaturates ==
    \A p, d, e \in Int : \A k \in {"grid", "space"} :
        Hi(e, k) >= 0 => /\ (p + d > Hi(e, k) => Clamp(p, d, e, k) = Hi(e, k))
                         /\ (p + d < 0 => Clamp(p, d, e, k) = 0)
  BY DEF Clamp, WMax, WMin, Hi

THEOREM WrapContained ==
    \A p, d, e \in Int : e > 0 => (0 <= WrapTo(p, d, e) /\ WrapTo(p, d, e) <= e - 1)
  BY DEF WrapTo

THEOREM WrapIdentityInside ==
    \A p, d, e \in Int : (e > 0 /\ 0 <= p + d /\ p + d < e) => WrapTo(p, d, e) = p + d
  BY DEF WrapTo
=============================================================================
