\* C07 thorough: 2 seeds, 4 draws per copy, 3 ambient values, every generator function, every interleaving
SPECIFICATION Spec
CONSTANTS
  Seeds = {1, 2}
  MaxDraws = 4
  AmbientVals = {0, 1, 2}
  Source = "own"
INVARIANT C07_SameTrajectory
