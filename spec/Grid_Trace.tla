----------------------------- MODULE Grid_Trace -----------------------------
(***************************************************************************)
(* Trace specification for Grid: one trace = one real grid world; every     *)
(* answer of the real world (ids, position table, get_cell rows,            *)
(* neighbourhoods in every input/return representation, columns after       *)
(* every cell-component operation) must be what Grid's definitions give.    *)
(***************************************************************************)
EXTENDS Grid, Json, IOUtils, TLCExt

Traces == JsonDeserialize(IOEnv.TRACE_FILE).traces

VARIABLES tid, l
tvars == <<vars, tid, l>>
Ev == Traces[tid][l]

ColsObs(o)  == {<<o[i][1], o[i][2]>> : i \in 1..Len(o)}
ColsOf(C)   == {<<n, C[n]>> : n \in DOMAIN C}
Desc(e)     == [kind |-> (IF e.kind = "array" THEN "list" ELSE e.kind), k |-> e.k, vals |-> e.vals]

TrNewGrid ==
    /\ Ev.op = "new_grid" /\ l = 1
    /\ shape' = Ev.shape /\ UNCHANGED <<cols, src, dev>>
    /\ Ev.pos_table = CellSeq(Ev.shape) /\ Ev.ncells = NCells(Ev.shape)

TrIdOf ==
    /\ Ev.op = "id_of" /\ UNCHANGED vars
    /\ InGrid(Ev.c, shape) /\ Ev.id = CellId(Ev.c, shape)

TrGetCell ==
    /\ Ev.op = "get_cell" /\ UNCHANGED vars
    /\ IF InGrid(Ev.c, shape)
       THEN /\ Ev.out = "ok" /\ Ev.pos = Ev.c
            /\ ColsObs(Ev.vals) = {<<n, cols[n][CellId(Ev.c, shape) + 1]>> : n \in DOMAIN cols}
       ELSE Ev.out = "IndexError"

TrNeigh ==
    /\ Ev.op = "neigh" /\ UNCHANGED vars /\ InGrid(Ev.c, shape)
    /\ LET B == Ball(Ev.kind, Ev.c, Ev.r, Ev.inc, shape)
           I == IdsOf(B, shape)
       IN /\ \A k \in 1..Len(Ev.tup) : Ev.tup[k] = B
          /\ \A k \in 1..Len(Ev.ids) : Ev.ids[k] = I

TrAdd ==
    /\ Ev.op = "add_cell_component"
    /\ \/ /\ Ev.out = "ok" /\ Ev.kind # "halve" /\ AddCellComponent(Ev.name, Desc(Ev))
       \/ /\ Ev.out = "ok" /\ Ev.kind = "halve" /\ AddHalved(Ev.name)
       \/ /\ Ev.out \in {"TypeError", "IndexError"} /\ Ev.kind = "lookup" /\ Ev.dims < 3
          /\ AddLookup_F4(Ev.name, Desc(Ev))
    /\ ColsObs(Ev.cols) = ColsOf(cols')

TrMutate ==
    /\ Ev.op = "mutate_source" /\ UNCHANGED vars       \* MutateCallerSource, also for a source whose column is gone
    /\ ColsObs(Ev.cols) = ColsOf(cols')

TrRemove ==
    /\ Ev.op = "remove_cell_component"
    /\ \/ Ev.out = "ok" /\ RemoveCellComponent(Ev.name)
       \/ Ev.out = "ComponentNotFoundError" /\ RemoveRejected(Ev.name)
    /\ ColsObs(Ev.cols) = ColsOf(cols')
    /\ Ev.pos_table = CellSeq(shape)

TraceInit == /\ shape = <<0, 0, 0>> /\ cols = << >> /\ src = << >> /\ dev = {}
             /\ tid \in 1..Len(Traces) /\ l = 1
TraceNext == /\ l <= Len(Traces[tid]) /\ l' = l + 1 /\ UNCHANGED tid
             /\ (TrNewGrid \/ TrIdOf \/ TrGetCell \/ TrNeigh \/ TrAdd \/ TrMutate \/ TrRemove)
TraceSpec == TraceInit /\ [][TraceNext]_tvars

Accepted == (l = Len(Traces[tid]) + 1) => PrintT(<<"ACCEPT", tid, dev>>)
Progress == PrintT(<<"AT", tid, l, ToString([shape |-> shape, cols |-> cols, dev |-> dev])>>)
=============================================================================
