\* C09: thorough: all shapes 0..8 per axis (729 shapes)
SPECIFICATION Spec
CONSTANTS
  MaxExt = 8
  MaxRadius = 0
  Names = {}
  Offsets = {}
  IdFormula = "layered"
  BoundsTest = "layered"
  ManhTest = "lt"
INVARIANT C09_Injective
INVARIANT C09_Range
INVARIANT C09_Inverse
INVARIANT C09_Bounds
