\* negative control: a failing execution is silently dropped
SPECIFICATION Spec
CONSTANTS
  Part = "pool"
  PNames = {"a", "b", "c"}
  Shapes = {"scalar5", "float35", "none", "str_xy", "str_empty", "empty", "list1", "list11", "list12", "list321", "tuple34", "range2", "range0", "np78", "strs"}
  MaxDecl = 3
  NTasks = 4
  Workers = {"w1", "w2", "w3"}
  FailTasks = {2}
  NCombos = 3
  NReps = 2
  ScoreVals <- SV0
  Sentinel = 1
  BestInit = "first"
  ErrorPolicy = "drop"
INVARIANT C15_ExactlyOnce
INVARIANT C15_ErrorSurfaces
\* (only the properties this control must refute are listed: with several violated properties TLC's workers
\*  would race for which one is reported first; the full list is checked on the right algorithm by the main cfg)
