\* C12 thorough: larger coordinate and leeway alphabet
SPECIFICATION Spec
CONSTANTS
  Models <- M1
  WorldKinds <- K_c12
  AgentObjs <- Ag_xy
  Types <- T_0
  TagVals <- Tags0
  Serials <- Ser1
  Coords <- C_c12
  Deltas <- None_
  Leeways <- L_c12
  Deviations <- NoDev
  Variants <- Mech
  Guests = FALSE
  TagTest = "isnone"
  BoxForm = "minmax"
INVARIANT C03_Mirror
INVARIANT C03_NoDupListing
INVARIANT C04_OnePerId
INVARIANT C04_EnvAgents
INVARIANT C04_LeaveEnabled
INVARIANT C08_Contained
INVARIANT C08_PosIffResidentSpatial
INVARIANT C12_AlgIsBox
INVARIANT C12_SeamContainsPlain
