SPECIFICATION SuiteSpec
CONSTANTS
  Models = {}
  WorldKinds = {}
  AgentObjs = {}
  Types = {"A", "B", "C"}
  TagVals = {}
  Serials = {}
  Coords = {}
  Deltas = {}
  Leeways = {}
  Deviations = {}
  Variants = {"mech"}
  TagTest = "isnone"
  BoxForm = "minmax"
INVARIANT Accepted
