-------------------------------- MODULE Tags --------------------------------
(***************************************************************************)
(* ECAgent.Tags: tag libraries (local TagLibrary objects and the module-    *)
(* level global library).  tags[lib] is the sequence of tag names in id     *)
(* order (id = position - 1; NONE is always 0).  A name is *reserved* for   *)
(* a library when it already resolves on the library object (its methods,   *)
(* dunder attributes, bookkeeping fields; for the global library also the   *)
(* module's own globals).  Property C19 is stated at the end.               *)
(***************************************************************************)
EXTENDS Integers, Sequences, FiniteSets, TLC

CONSTANTS Libs,           \* library names offered by Next
          Names,          \* tag names offered by Next
          ReservedNames,  \* names that resolve on every library object
          ReservedPolicy  \* "reject" = the code (after fixes beab77b, bd34102) | "overwrite" = original (negative control)

VARIABLES tags,           \* lib -> Seq(name)
          broken          \* libs whose own operations were overwritten by a tag (only with ReservedPolicy = "overwrite")

vars == <<tags, broken>>

Range(s) == {s[i] : i \in 1..Len(s)}
NoDup(s) == \A i, j \in 1..Len(s) : i # j => s[i] # s[j]

IsTag(lib, n)  == n \in Range(tags[lib])
IdOf(lib, n)   == (CHOOSE i \in 1..Len(tags[lib]) : tags[lib][i] = n) - 1
NameOf(lib, i) == tags[lib][i + 1]
ValidId(lib, i) == 0 <= i /\ i < Len(tags[lib])
Itemize(lib)   == [i \in 1..Len(tags[lib]) |-> <<tags[lib][i], i - 1>>]

Add(lib, n) ==                      \* accepted: the next unused id
    /\ ~IsTag(lib, n)
    /\ tags' = [tags EXCEPT ![lib] = Append(@, n)]
    /\ UNCHANGED broken

AddRejected(lib, n) ==              \* DuplicateTagError
    /\ UNCHANGED vars

\* the original code: a reserved name is stored over the attribute of the same name
AddOverwrite(lib, n) ==
    /\ n \in ReservedNames /\ ~IsTag(lib, n)
    /\ tags' = [tags EXCEPT ![lib] = Append(@, n)]
    /\ broken' = broken \cup {lib}

Init == tags = [lib \in Libs |-> <<"NONE">>] /\ broken = {}

OfferAdd(lib, n)       == n \notin ReservedNames /\ ~IsTag(lib, n) /\ Add(lib, n)
OfferRejected(lib, n)  == /\ IF ReservedPolicy = "reject" THEN n \in ReservedNames \/ IsTag(lib, n) ELSE IsTag(lib, n)
                          /\ AddRejected(lib, n)
OfferOverwrite(lib, n) == ReservedPolicy = "overwrite" /\ AddOverwrite(lib, n)

Next == \/ \E lib \in Libs, n \in Names : OfferAdd(lib, n)
        \/ \E lib \in Libs, n \in Names : OfferRejected(lib, n)
        \/ \E lib \in Libs, n \in Names : OfferOverwrite(lib, n)

Spec == Init /\ [][Next]_vars

C19_Dense     == \A lib \in Libs : tags[lib][1] = "NONE" /\ NoDup(tags[lib])
C19_Bijection == \A lib \in Libs : \A i \in 0..(Len(tags[lib]) - 1) :
                    IdOf(lib, NameOf(lib, i)) = i /\ Itemize(lib)[i + 1] = <<NameOf(lib, i), i>>
C19_NotBroken == broken = {}
C19_NextId    == [][\A lib \in Libs : Len(tags'[lib]) > Len(tags[lib]) =>
                       /\ Len(tags'[lib]) = Len(tags[lib]) + 1
                       /\ SubSeq(tags'[lib], 1, Len(tags[lib])) = tags[lib]]_vars
C19_Independent == [][\A lib \in Libs : tags'[lib] # tags[lib] => \A o \in Libs \ {lib} : tags'[o] = tags[o]]_vars
=============================================================================
