\* C06 thorough
SPECIFICATION Spec
CONSTANTS
  Objs <- Objs_abca
  Prios <- Prios_m101
  Windows <- Win_few
  Scripts <- Scripts_C06
  MaxN = 3
  Iteration = "snapshot"
  InsertCmp = "gt"
  WindowTest = "code"
CONSTRAINT ClockAtMost3
INVARIANT C01_Registry
INVARIANT C01_Ordered
INVARIANT C02_AlgIsDecl
PROPERTY C01_C02_C05_Step
PROPERTY C05_RunOK
PROPERTY C02_PlusOne
PROPERTY C02_ClockOnlyAtEnd
PROPERTY C06_Final
PROPERTY C06_NothingRuns
PROPERTY C06_LaterNoop
PROPERTY C01_RejectedNoop
