-------------------------- MODULE Collectors_Trace --------------------------
(***************************************************************************)
(* Trace specification for Collectors: a real Model with a scripted         *)
(* population system (priority 0), real AgentCollectors and FileCollectors  *)
(* (writing real files); after every timestep the driver logs deep copies   *)
(* of all records, the text of every file and the records still held.       *)
(***************************************************************************)
EXTENDS Collectors, Json, IOUtils, TLCExt

Traces == JsonDeserialize(IOEnv.TRACE_FILE).traces
VARIABLES tid, l, dev, acfg, fcfg
tvars == <<vars, tid, l, dev, acfg, fcfg>>
Ev == Traces[tid][l]

Ops(o)   == [i \in 1..Len(o) |-> <<o[i][1], o[i][2]>>]
RecSet(r) == {<<r[i][1], r[i][2]>> : i \in 1..Len(r)}
Lines(x) == [i \in 1..Len(x) |-> <<x[i][1], x[i][2]>>]

ObsOK(o, c2, E2, V2, R2, F2) ==
    /\ o.clock = c2
    /\ [i \in 1..Len(o.env) |-> o.env[i][1]] = E2
    /\ \A i \in 1..Len(o.env) : o.env[i][2] = V2[o.env[i][1]]
    /\ {o.records[i][1] : i \in 1..Len(o.records)} = DOMAIN R2
    /\ \A i \in 1..Len(o.records) :
          LET c == o.records[i][1]  rs == o.records[i][2] IN
          /\ Len(rs) = Len(R2[c])
          /\ \A k \in 1..Len(rs) : RecSet(rs[k]) = R2[c][k] /\ Len(rs[k]) = Cardinality(R2[c][k])
    /\ {o.files[i][1] : i \in 1..Len(o.files)} = DOMAIN F2
    /\ \A i \in 1..Len(o.files) :
          LET f == o.files[i][1] IN
          /\ Lines(o.files[i][2]) = F2[f].file           \* the text already written
          /\ Lines(o.files[i][3]) = F2[f].held           \* the records still held

TrSetup ==
    /\ Ev.op = "setup" /\ l = 1
    /\ acfg' = [i \in {Ev.acs[k].name : k \in 1..Len(Ev.acs)} |->
                  LET a == CHOOSE a \in Range(Ev.acs) : a.name = i IN
                  [start |-> a.start, end |-> a.end, freq |-> a.freq, fkind |-> a.fkind, comp |-> a.comp, incl |-> a.incl]]
    /\ fcfg' = [i \in {Ev.fcs[k].name : k \in 1..Len(Ev.fcs)} |->
                  LET f == CHOOSE f \in Range(Ev.fcs) : f.name = i IN
                  [start |-> f.start, end |-> f.end, freq |-> f.freq, wc |-> f.wc, plan |-> f.plan]]
    /\ records' = [i \in {Ev.acs[k].name : k \in 1..Len(Ev.acs)} |-> <<>>]
    /\ fstate' = [i \in {Ev.fcs[k].name : k \in 1..Len(Ev.fcs)} |-> [last |-> 0, held |-> <<>>, file |-> <<>>, groups |-> <<>>]]
    /\ UNCHANGED <<clock, env, val>>

TrBetween == Ev.op = "between" /\ Between(Ops(Ev.ops)) /\ UNCHANGED <<acfg, fcfg>>
TrStep    == Ev.op = "step" /\ StepWith(Ops(Ev.ops), acfg, fcfg) /\ UNCHANGED <<acfg, fcfg>>

TraceInit == /\ clock = 0 /\ env = <<>> /\ val = << >> /\ records = << >> /\ fstate = << >>
             /\ acfg = << >> /\ fcfg = << >> /\ tid \in 1..Len(Traces) /\ l = 1 /\ dev = {}
TraceNext == /\ l <= Len(Traces[tid]) /\ l' = l + 1 /\ UNCHANGED <<tid, dev>>
             /\ (TrSetup \/ TrBetween \/ TrStep)
             /\ ObsOK(Ev.obs, clock', env', val', records', fstate')
TraceSpec == TraceInit /\ [][TraceNext]_tvars
Accepted == (l = Len(Traces[tid]) + 1) => PrintT(<<"ACCEPT", tid, dev>>)
Progress == PrintT(<<"AT", tid, l, ToString([clock |-> clock, env |-> env, val |-> val, records |-> records, fstate |-> fstate])>>)
=============================================================================
