-------------------------- MODULE AgentClass_Trace --------------------------
EXTENDS AgentClass, Json, IOUtils, TLCExt

Traces == JsonDeserialize(IOEnv.TRACE_FILE).traces
VARIABLES tid, l, dev
tvars == <<vars, tid, l, dev>>
Ev == Traces[tid][l]

ClassObsOK(o, CC2, CT2) ==
    /\ o.comps = CC2[o.cls] /\ o.len = Len(CC2[o.cls]) /\ o.tag = CT2[o.cls]
    /\ \A k \in 1..Len(o.contains) : o.contains[k][2] = HasT(CC2[o.cls], o.contains[k][1])
    \* templates of several types: has_class_component(T1, .., Tn) holds iff every listed type is attached (TRUE for none listed)
    /\ \A k \in 1..Len(o.hasall) : o.hasall[k][2] = (\A j \in 1..Len(o.hasall[k][1]) : HasT(CC2[o.cls], o.hasall[k][1][j]))
    /\ \A k \in 1..Len(o.get) :          \* Cls[T] / get_class_component(T): the serial of the component, 0 for None
          LET T == o.get[k][1] IN
          o.get[k][2] = IF HasT(CC2[o.cls], T) THEN (CHOOSE c \in {CC2[o.cls][i] : i \in 1..Len(CC2[o.cls])} : c[1] = T)[2] ELSE 0
ObsOK(obs, CC2, CT2, I2) ==
    /\ {obs.classes[i].cls : i \in 1..Len(obs.classes)} \in {Classes, Classes \ {"L"}}      \* L exists once it has been defined
    /\ \A i \in 1..Len(obs.classes) : ClassObsOK(obs.classes[i], CC2, CT2)
    /\ Len(obs.inst) = Len(I2)
    \* (-98: the driver has not looked at this instance's tag yet - it does so after a later change of a class default)
    /\ \A i \in 1..Len(I2) : obs.inst[i].tag \in {I2[i].tag, -98} /\ obs.inst[i].comps = I2[i].comps /\ obs.inst[i].cls = I2[i].cls
    \* the instance-level API (agent[T], get_component, has_component, len, in): growth beyond C20's claim, same definitions
    /\ \A i \in 1..Len(I2) : I2[i].cls # "Environment" => obs.inst[i].len = Len(I2[i].comps)   \* len(environment) counts its agents
    /\ \A i \in 1..Len(I2) : \A k \in 1..Len(obs.inst[i].hasall) :         \* has_component(T1, .., Tn)
          obs.inst[i].hasall[k][2] = (\A j \in 1..Len(obs.inst[i].hasall[k][1]) : HasT(I2[i].comps, obs.inst[i].hasall[k][1][j]))
    /\ \A i \in 1..Len(I2) : \A k \in 1..Len(obs.inst[i].api) :
          LET T == obs.inst[i].api[k][1]  has == HasT(I2[i].comps, T) IN
          /\ obs.inst[i].api[k][2] = has                                   \* T in agent, has_component(T)
          /\ obs.inst[i].api[k][3] = (IF has THEN (CHOOSE c \in {I2[i].comps[j] : j \in 1..Len(I2[i].comps)} : c[1] = T)[2] ELSE 0)
          /\ obs.inst[i].api[k][4] = (IF has THEN "ok" ELSE "ComponentNotFoundError")   \* get_component(T, throw_error=True)

TrAttachClass == /\ Ev.op = "attach_class"
                 /\ \/ Ev.out = "ok" /\ AttachClass(Ev.cls, Ev.T, Ev.s)
                    \/ Ev.out = "ValueError" /\ AttachClassRejected(Ev.cls, Ev.T)
TrDetachClass == /\ Ev.op = "detach_class"
                 /\ \/ Ev.out = "ok" /\ DetachClass(Ev.cls, Ev.T)
                    \/ Ev.out = "ComponentNotFoundError" /\ DetachClassRejected(Ev.cls, Ev.T)
TrDefine  == Ev.op = "define" /\ Ev.out = "ok" /\ UNCHANGED vars      \* a new class starts with no class components and tag NONE
TrSetTag  == Ev.op = "set_tag" /\ Ev.out = "ok" /\ SetTag(Ev.cls, Ev.tag)
TrNew     == Ev.op = "new" /\ Ev.out = "ok" /\ New(Ev.cls, Ev.explicit, Ev.tag)
TrAttachInst == /\ Ev.op = "attach_inst"
                /\ \/ Ev.out = "ok" /\ AttachInst(Ev.i, Ev.T, Ev.s)
                   \/ Ev.out = "ValueError" /\ HasT(inst[Ev.i].comps, Ev.T) /\ UNCHANGED vars
TrDetachInst == /\ Ev.op = "detach_inst"
                /\ \/ Ev.out = "ok" /\ DetachInst(Ev.i, Ev.T)
                   \/ Ev.out = "ComponentNotFoundError" /\ ~HasT(inst[Ev.i].comps, Ev.T) /\ UNCHANGED vars

TraceInit == Init /\ tid \in 1..Len(Traces) /\ l = 1 /\ dev = {}
TraceNext == /\ l <= Len(Traces[tid]) /\ l' = l + 1 /\ UNCHANGED <<tid, dev>>
             /\ (TrDefine \/ TrAttachClass \/ TrDetachClass \/ TrSetTag \/ TrNew \/ TrAttachInst \/ TrDetachInst)
             /\ ObsOK(Ev.obs, ccomps', ctag', inst')
TraceSpec == TraceInit /\ [][TraceNext]_tvars
Accepted == (l = Len(Traces[tid]) + 1) => PrintT(<<"ACCEPT", tid, dev>>)
Progress == PrintT(<<"AT", tid, l, ToString([ccomps |-> ccomps, ctag |-> ctag, inst |-> inst])>>)
=============================================================================
