SPECIFICATION TraceSpec
CONSTANTS
  MaxExt = 0
  MaxRadius = 0
  Names = {}
  Offsets = {}
  IdFormula = "layered"
  BoundsTest = "layered"
  ManhTest = "lt"
INVARIANT Accepted
