----------------------------- MODULE Batch_Trace -----------------------------
(***************************************************************************)
(* Trace specification for Batch.  A trace is either a history of one real  *)
(* ParameterList (C14), or single calls of batch_run (C15) / grid_search    *)
(* (C16) on the self-identifying fixture models of harness/drivers/batch.py *)
(* with everything the call returned.                                       *)
(***************************************************************************)
EXTENDS Batch, Json, IOUtils, TLCExt

Traces == JsonDeserialize(IOEnv.TRACE_FILE).traces
VARIABLES tid, l, dev,
          twin           \* the declaration of a second ParameterList built from the same dictionary at construction time
tvars == <<vars, tid, l, dev, twin>>
Ev == Traces[tid][l]

Others == <<next, busy, results, error, failedAny, mode, score>>
DeclOf(o) == [i \in 1..Len(o) |-> [name |-> o[i][1], shape |-> o[i][2]]]
Pairs(c)  == [i \in 1..Len(c) |-> <<c[i][1], c[i][2]>>]
Combos(r) == [k \in 1..Len(r) |-> Pairs(r[k])]

TrInit == /\ Ev.op = "pl_init" /\ l = 1
          /\ \/ Ev.out = "ok" /\ ~Ev.badkey /\ decl' = DeclOf(Ev.decl) /\ twin' = DeclOf(Ev.decl)
             \/ Ev.out = "AttributeError" /\ Ev.badkey /\ UNCHANGED <<decl, twin>>
TrDeclare == /\ Ev.op = "declare"
             /\ \/ Ev.out = "ok" /\ Ev.namekind = "str" /\ Declare(Ev.name, Ev.shape)
                \/ Ev.out = "KeyError" /\ Ev.namekind = "str" /\ Declared(Ev.name) /\ DeclareRejected(Ev.name)
                \/ Ev.out = "AttributeError" /\ Ev.namekind = "nonstr" /\ DeclareRejected(Ev.name)
TrRemove == /\ Ev.op = "remove_param"
            /\ \/ Ev.out = "ok" /\ RemoveParam(Ev.name)
               \/ Ev.out = "KeyError" /\ RemoveParamRejected(Ev.name)
TrBuild == /\ Ev.op = "build" /\ Ev.out = "ok" /\ Build
           /\ Combos(Ev.res) = Product(decl)
           /\ Combos(Ev.res2) = Product(decl)       \* built again after the caller modified the first result
           /\ Combos(Ev.twin) = Product(twin)       \* the other list sharing the constructor dictionary is unaffected

\* ---- batch_run on the fixture model -------------------------------------------------------------------
Grid(o)      == [i \in 1..Len(o) |-> [name |-> o[i][1], vals |-> o[i][2]]]
Param(c, n, dflt) == IF \E i \in 1..Len(c) : c[i][1] = n THEN (CHOOSE p \in Range(c) : p[1] = n)[2] ELSE dflt
\* a text parameter of the fixture: its position in the fixture's list of labels is part of the signature ("None" = the value None)
LabelIdx(v)  == CASE v = "dry" -> 0 [] v = "ab" -> 1 [] v = "" -> 2 [] v = "x" -> 3 [] v = "wet season" -> 4 [] v = "None" -> 5
\* w: a number or tuple of the fixture's table, given as a code that includes its type (the fixture recomputes the code from
\* the value it receives); knob: a module-level setting of the program at the time of the call
SigOf(c)     == 1000000 * Ev.knob + 100000 * Param(c, "w", 0) + 10000 * LabelIdx(Param(c, "label", "dry"))
                + 1000 * Param(c, "stop", 3) + 100 * Param(c, "cstart", 0) + 10 * Param(c, "cfreq", 1) + Param(c, "d", 0)
\* a fixture with a burn-in phase replaces its collector "c1" at timestep `burn` (if it gets that far) by a fresh one that
\* records from burn + 1 on: "that execution's own collector records" are those of the collector registered under the name
\* when the run stops
C1Start(c, lim) == LET b == Param(c, "burn", -1)
                       last == (IF Param(c, "stop", 3) < lim THEN Param(c, "stop", 3) ELSE lim - 1)     \* last timestep in which systems run
                   IN IF b >= 0 /\ b <= last THEN b + 1 ELSE Param(c, "cstart", 0)
RunOf(c, lim, two) ==
    LET r1 == RunRecords(SigOf(c), Param(c, "stop", 3), C1Start(c, lim), Param(c, "cfreq", 1), lim)
        r2 == RunRecords(SigOf(c), Param(c, "stop", 3), Param(c, "cstart", 0), Param(c, "cfreq", 1) + 1, lim)
    IN IF two THEN << <<"c1", r1>>, <<"c2", r2>> >> ELSE << <<"c1", r1>> >>
RepMajor(P, reps)   == [k \in 1..(Len(P) * reps) |-> P[((k - 1) % Len(P)) + 1]]
ComboMajor(P, reps) == [k \in 1..(Len(P) * reps) |-> P[((k - 1) \div reps) + 1]]
ResOf(r) == [k \in 1..Len(r) |-> [j \in 1..Len(r[k]) |-> <<r[k][j][1], [i \in 1..Len(r[k][j][2]) |-> <<r[k][j][2][i][1], r[k][j][2][i][2]>>]>>]]

SubBag(s, t) == \A x \in Range(s) : Count(s, x) <= Count(t, x)

TrBatchRun ==
    /\ Ev.op = "batch_run" /\ UNCHANGED vars
    /\ LET P     == TLCEval(ProductV(Grid(Ev.grid)))
           \* the fixture raises in its constructor when d is odd, else in a system at timestep 0 (needs limit > 0)
           fails == \E k \in 1..Len(P) : /\ Ev.reps > 0 /\ Param(P[k], "stop", 3) = Ev.failstop
                                          /\ (Param(P[k], "d", 0) % 2 = 1 \/ Ev.limit > 0)
           \* TLCEval: the expected results are computed once (TLC would otherwise re-evaluate RunOf at every application)
           expP  == TLCEval([k \in 1..Len(P) |-> RunOf(P[k], Ev.limit, Ev.two)])
           expR  == TLCEval([k \in 1..(Len(P) * Ev.reps) |-> expP[((k - 1) % Len(P)) + 1]])
           expC  == TLCEval([k \in 1..(Len(P) * Ev.reps) |-> expP[((k - 1) \div Ev.reps) + 1]])
           got   == TLCEval(ResOf(Ev.res))
       \* the error that reaches the caller is the one the execution raised (the fixture's own or one of the library's)
       IN IF fails
          THEN \/ Ev.out = Ev.failname /\ dev' = dev
               \* a repaired library may hand a StopIteration on as RuntimeError (the way generators do since PEP 479)
               \/ Ev.failname = "StopIteration" /\ Ev.out = "RuntimeError" /\ dev' = dev
               \* known finding F7: with several processes a StopIteration raised by an execution ends the collecting loop -
               \* no error reaches the caller, the results collected so far are returned
               \/ /\ Ev.failname = "StopIteration" /\ Ev.procs > 1 /\ Ev.out = "ok"
                  /\ SubBag(got, expR) /\ Len(Ev.res) < Len(expR)
                  /\ dev' = dev \cup {"F7"}
          ELSE /\ dev' = dev
               /\ Ev.out = "ok"
               \* one name: the bare records; a list of names (also of one): records by name
               /\ \A k \in 1..Len(Ev.shapes) : Ev.shapes[k] = (IF Ev.sel = "str" THEN "list" ELSE "dict")
               /\ IF Ev.procs = 1 THEN got = expR \/ got = expC
                  ELSE SameBag(got, expR)

\* ---- grid_search on the fixture model -----------------------------------------------------------------
TrGridSearch ==
    /\ Ev.op = "grid_search" /\ UNCHANGED vars /\ Ev.out = "ok"
    /\ LET P  == ProductV(Grid(Ev.grid))
           sc == Ev.table
       IN /\ Len(Ev.report) = Len(P) /\ Len(sc) = Len(P)
          /\ \A i \in 1..Len(P) :
                LET a == Agg(Ev.mode, sc[i]) IN
                /\ Pairs(Ev.report[i].params) = P[i]               \* the unmodified parameters, in product order
                /\ Ev.report[i].records = sc[i]                    \* the individual scores
                /\ Ev.report[i].score * a[2] = a[1] * Ev.K         \* the aggregate: score = num/den, logged as score*K
          /\ Ev.best = BestIdx(Ev.mode, sc)

TraceInit == /\ decl = <<>> /\ next = 1 /\ busy = << >> /\ results = <<>> /\ error = FALSE /\ failedAny = FALSE
             /\ mode = "MIN" /\ score = << >> /\ tid \in 1..Len(Traces) /\ l = 1 /\ dev = {} /\ twin = <<>>
TraceNext == /\ l <= Len(Traces[tid]) /\ l' = l + 1 /\ UNCHANGED tid
             /\ \/ TrInit /\ UNCHANGED Others /\ UNCHANGED dev
                \/ (TrDeclare \/ TrRemove \/ TrBuild) /\ UNCHANGED Others /\ UNCHANGED <<twin, dev>>
                \/ TrBatchRun /\ UNCHANGED twin
                \/ TrGridSearch /\ UNCHANGED <<twin, dev>>
TraceSpec == TraceInit /\ [][TraceNext]_tvars
Accepted == (l = Len(Traces[tid]) + 1) => PrintT(<<"ACCEPT", tid, dev>>)
Progress == PrintT(<<"AT", tid, l, ToString(decl)>>)
=============================================================================
