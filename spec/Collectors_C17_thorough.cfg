\* C17 thorough: 5+5 collectors, 7 timesteps
SPECIFICATION Spec
CONSTANTS
  Ids <- Ids_xy
  MaxVal = 2
  ACollectors <- AC_t
  FCollectors <- FC_t
  MaxClock = 4
  TwoOps = FALSE
  FlushTest = "lt"
INVARIANT C17_NoEmpty
INVARIANT C17_Conservation
INVARIANT C17_FlushRule
INVARIANT C17_NoDupInFile
PROPERTY C17_AppendOnly
