\* negative control (no fairness) for the liveness of requests: 2 ids (+ new id n, twin b2), 2 priority levels, mutating scripts, requests of 1..2 steps, no state constraint
SPECIFICATION LiveSpecUnfair
CONSTANTS
  Objs <- Objs_ab
  Prios <- Prios_01
  Windows <- Win_two
  Scripts <- Scripts_Live
  MaxN = 2
  Iteration = "snapshot"
  InsertCmp = "gt"
  WindowTest = "code"
PROPERTY C02_RequestEnds
