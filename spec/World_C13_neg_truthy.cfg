\* negative control: `if tag:` treats tag 0 as no filter
SPECIFICATION Spec
CONSTANTS
  Models <- M1
  WorldKinds <- K_plain
  AgentObjs <- Ag_xyz
  Types <- T_AB
  TagVals <- Tags017
  Serials <- Ser1
  Coords <- None_
  Deltas <- None_
  Leeways <- None_
  Deviations <- NoDev
  Variants <- Mech
  Guests = FALSE
  TagTest = "truthy"
  BoxForm = "minmax"
INVARIANT C13_AlgIsFilter
