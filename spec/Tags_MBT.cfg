\* spec -> code graph
SPECIFICATION Spec
CONSTANTS
  Libs = {"L1", "L2", "G"}
  Names = {"a", "b", "NONE", "itemize"}
  ReservedNames = {"itemize"}
  ReservedPolicy = "reject"
