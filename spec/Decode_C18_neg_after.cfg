\* negative control: agents of a group are added to the environment only after all of them were created
SPECIFICATION Spec
CONSTANTS
  MaxSystems = 2
  MaxGroups = 2
  MaxN = 2
  AgentAdd = "after"
INVARIANT C18_Order
INVARIANT C18_Prefix
INVARIANT C18_ModelArg
INVARIANT C18_Contents
