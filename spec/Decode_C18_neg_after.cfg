\* negative control: agents of a group are added to the environment only after all of them were created
SPECIFICATION Spec
CONSTANTS
  MaxSystems = 2
  MaxGroups = 2
  MaxN = 2
  AgentAdd = "after"
INVARIANT C18_Order
INVARIANT C18_Prefix
\* (only the properties this control must refute are listed: with several violated properties TLC's workers
\*  would race for which one is reported first; the full list is checked on the right algorithm by the main cfg)
