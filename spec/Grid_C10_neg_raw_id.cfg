\* negative control (D3 in the id form of neighbourhoods)
SPECIFICATION Spec
CONSTANTS
  MaxExt = 3
  MaxRadius = 3
  Names = {}
  Offsets = {}
  IdFormula = "raw"
  BoundsTest = "layered"
  ManhTest = "lt"
INVARIANT C10_IdForm
