SPECIFICATION SuiteSpec
CONSTANTS
  Objs = {}
  Prios = {}
  Windows = {}
  Scripts = {}
  MaxN = 1
  Iteration = "snapshot"
  InsertCmp = "gt"
  WindowTest = "code"
INVARIANT Accepted
