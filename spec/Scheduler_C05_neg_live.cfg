\* negative control: the original loop over the live list must violate the step obligations
SPECIFICATION Spec
CONSTANTS
  Objs <- Objs_abc
  Prios <- Prios_01
  Windows <- Only_AlwaysOn
  Scripts <- Scripts_C05_s
  MaxN = 1
  Iteration = "live"
  InsertCmp = "gt"
  WindowTest = "code"
CONSTRAINT ClockAtMost1
PROPERTY C01_C02_C05_Step
\* (only the property this control must refute is listed: with several violated properties TLC's workers
\*  would race for which one is reported first; the full list is checked on the right algorithm by the main cfg)
