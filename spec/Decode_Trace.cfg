SPECIFICATION TraceSpec
CONSTANTS
  MaxSystems = 0
  MaxGroups = 0
  MaxN = 0
  AgentAdd = "each"
INVARIANT Accepted
