\* negative control (finding F5): in a wrapping world the plain box is not the seam-aware box
SPECIFICATION Spec
CONSTANTS
  Models <- M1
  WorldKinds <- K_c12w
  AgentObjs <- Ag_xy
  Types <- T_0
  TagVals <- Tags0
  Serials <- Ser1
  Coords <- C_c12
  Deltas <- None_
  Leeways <- L_c12
  Deviations <- NoDev
  Variants <- Mech
  Guests = FALSE
  TagTest = "isnone"
  BoxForm = "minmax"
INVARIANT C12_PlainIsSeam
