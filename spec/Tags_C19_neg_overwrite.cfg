\* negative control (defects D4, D7): a reserved name overwrites the library's own attribute
SPECIFICATION Spec
CONSTANTS
  Libs = {"L1", "L2", "G"}
  Names = {"a", "b", "c", "NONE", "add_tag", "__class__", "x y"}
  ReservedNames = {"add_tag", "__class__"}
  ReservedPolicy = "overwrite"
INVARIANT C19_Dense
INVARIANT C19_Bijection
INVARIANT C19_NotBroken
PROPERTY C19_NextId
PROPERTY C19_Independent
