\* negative control (defects D4, D7): a reserved name overwrites the library's own attribute
SPECIFICATION Spec
CONSTANTS
  Libs = {"L1", "L2", "G"}
  Names = {"a", "b", "c", "NONE", "add_tag", "__class__", "x y"}
  ReservedNames = {"add_tag", "__class__"}
  ReservedPolicy = "overwrite"
INVARIANT C19_NotBroken
\* (only the property this control must refute is listed: with several violated properties TLC's workers
\*  would race for which one is reported first; the full list is checked on the right algorithm by the main cfg)
