\* C17: 2 agents, values 0..2, 3 agent collectors (windows, None results, composite, timestep), 3 file collectors (write_count 0..2, 0..2 records), 5 timesteps
SPECIFICATION Spec
CONSTANTS
  Ids <- Ids_xy
  MaxVal = 2
  ACollectors <- AC_q
  FCollectors <- FC_q
  MaxClock = 3
  TwoOps = FALSE
  FlushTest = "lt"
INVARIANT C17_NoEmpty
INVARIANT C17_Conservation
INVARIANT C17_FlushRule
INVARIANT C17_NoDupInFile
PROPERTY C17_AppendOnly
