\* spec -> code graph (must match AC_MBT / FC_MBT in harness/props/c17.py)
SPECIFICATION Spec
CONSTANTS
  Ids <- Ids_xy
  MaxVal = 2
  ACollectors <- AC_mbt
  FCollectors <- FC_mbt
  MaxClock = 2
  TwoOps = FALSE
  FlushTest = "lt"
