------------------------- MODULE Determinism_Trace -------------------------
(***************************************************************************)
(* Trace specification for C07.  An event is one complete run of a scripted *)
(* stochastic model: key = (configuration, seed), steps = what the run      *)
(* observed at each timestep (picks, shuffles, positions, population,       *)
(* records).  The generator is uninterpreted, so the first run with a key   *)
(* defines what that (configuration, seed) produces; every other run with   *)
(* the same key - under another schedule of perturbations, another hash     *)
(* seed, in a fresh interpreter or in a batch worker - must observe the     *)
(* same thing step by step.                                                 *)
(***************************************************************************)
EXTENDS Integers, Sequences, FiniteSets, TLC, Json, IOUtils, TLCExt

Traces == JsonDeserialize(IOEnv.TRACE_FILE).traces
VARIABLES ref, tid, l, dev
tvars == <<ref, tid, l, dev>>
Ev == Traces[tid][l]

DMin(a, b) == IF a <= b THEN a ELSE b
Agree(s, t) == \A j \in 1..DMin(Len(s), Len(t)) : s[j] = t[j]

TrRun == /\ Ev.op = "run" /\ Ev.out = "ok"
         /\ IF Ev.key \in DOMAIN ref
            THEN /\ Agree(Ev.steps, ref[Ev.key])
                 /\ ref' = IF Len(Ev.steps) > Len(ref[Ev.key]) THEN [ref EXCEPT ![Ev.key] = Ev.steps] ELSE ref
            ELSE ref' = [x \in DOMAIN ref \cup {Ev.key} |-> IF x = Ev.key THEN Ev.steps ELSE ref[x]]

TraceInit == ref = << >> /\ tid \in 1..Len(Traces) /\ l = 1 /\ dev = {}
TraceNext == l <= Len(Traces[tid]) /\ l' = l + 1 /\ UNCHANGED <<tid, dev>> /\ TrRun
TraceSpec == TraceInit /\ [][TraceNext]_tvars
Accepted == (l = Len(Traces[tid]) + 1) => PrintT(<<"ACCEPT", tid, dev>>)
Progress == PrintT(<<"AT", tid, l>>)
=============================================================================
