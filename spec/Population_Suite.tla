-------------------------- MODULE Population_Suite --------------------------
(***************************************************************************)
(* Transition-wise validation of population and listing operations          *)
(* (Environment.add_agent / remove_agent, Agent.add_component /             *)
(* remove_component, SystemManager.register_component /                     *)
(* deregister_component) recorded by the env-guarded tracer while the       *)
(* repository's own tests run: the pre-state is loaded into World's         *)
(* variables, the operation must be the World action of that name with the  *)
(* logged outcome, leading to the logged post-state.  Agents arrive as      *)
(* [serial, id, components], listings as [type, [[owner serial, component   *)
(* serial]]]; component classes are named A..D per event; the position      *)
(* component is owned by the spatial layer (World_Suite) and left out.      *)
(***************************************************************************)
EXTENDS World, Json, IOUtils, TLCExt

Traces == JsonDeserialize(IOEnv.TRACE_FILE).traces
VARIABLES tid, l
tvars == <<vars, tid, l>>
T == Traces[tid][1]
M == "m"

Rec(s, ser)    == CHOOSE e \in Range(s.agents) : e[1] = ser
Known(s, ser)  == \E i \in 1..Len(s.agents) : s.agents[i][1] = ser
Obj(s, ser)    == <<Rec(s, ser)[2], ser>>
CompsOf(s, ser) == LET c == Rec(s, ser)[3] IN [i \in 1..Len(c) |-> <<c[i][1], c[i][2]>>]
AgentsOf(s)    == [a \in {Obj(s, s.agents[i][1]) : i \in 1..Len(s.agents)} |->
                     [model |-> M, tag |-> 0, comps |-> CompsOf(s, a[2])]]
EnvOf(s)       == [i \in 1..Len(s.env) |-> <<s.env[i][1], s.env[i][2]>>]
HasPool(s, Ty) == \E i \in 1..Len(s.pools) : s.pools[i][1] = Ty
PoolOf(s)      == [Ty \in Types |->
                     IF HasPool(s, Ty)
                     THEN LET e == (CHOOSE e \in Range(s.pools) : e[1] = Ty)[2]
                          IN [i \in 1..Len(e) |-> <<Obj(s, e[i][1]), e[i][2]>>]
                     ELSE <<>>]
StateOK(s) ==
    /\ \A i \in 1..Len(s.env) : Known(s, s.env[i][2])
    /\ \A i \in 1..Len(s.pools) : s.pools[i][1] \in Types /\ \A j \in 1..Len(s.pools[i][2]) : Known(s, s.pools[i][2][j][1])
    /\ \A i, j \in 1..Len(s.agents) : i # j => s.agents[i][1] # s.agents[j][1]
Usable(t) == ~t.unsupported /\ StateOK(t.pre) /\ StateOK(t.post)
             /\ (t.op # "leave" => Known(t.pre, t.args.a))

A == <<T.args.id, T.args.a>>

SuiteInit ==
    /\ tid \in 1..Len(Traces)
    /\ pos = << >>
    /\ IF Usable(T)
       THEN /\ world = [m \in {M} |-> [kind |-> "plain", ext |-> <<0, 0, 0>>, wrap |-> FALSE]]
            /\ env = [m \in {M} |-> EnvOf(T.pre)]
            /\ pool = [m \in {M} |-> PoolOf(T.pre)]
            /\ agents = AgentsOf(T.pre)
            /\ dev = IF PoolOf(T.pre) = IdealPoolOf([m \in {M} |-> EnvOf(T.pre)], AgentsOf(T.pre), M) THEN {} ELSE {"pre"}
            /\ l = 1
       ELSE world = << >> /\ env = << >> /\ pool = << >> /\ agents = << >> /\ dev = {} /\ l = 3

PostOK(p) == /\ env'[M] = EnvOf(p)
             /\ pool'[M] = PoolOf(p)
             /\ \A i \in 1..Len(p.agents) :
                   LET a == Obj(p, p.agents[i][1]) IN a \in DOMAIN agents' /\ agents'[a].comps = CompsOf(p, a[2])
\* C03 on the recorded step: joining and leaving keep a listing that mirrored the residents a mirror
MirrorKept == (dev = {} /\ T.op \in {"join", "leave"} /\ T.out = "ok")
                 => pool'[M] = IdealPoolOf(env', agents', M)

SxJoin   == /\ T.op = "join"
            /\ \/ T.out = "ok" /\ Join(A, M, << >>, "mech")
               \/ T.out = "DuplicateAgentError" /\ JoinRejectedDup(A, M)
SxLeave  == /\ T.op = "leave"
            /\ \/ T.out = "ok" /\ ~LeaveIsF2(M, T.args.id) /\ Leave(M, T.args.id, "mech")
               \/ T.out = "KeyError" /\ IdTaken(M, T.args.id) /\ LeaveIsF2(M, T.args.id) /\ Leave(M, T.args.id, "mech")
               \/ T.out = "AgentNotFoundError" /\ LeaveRejected(M, T.args.id)
SxAttach == /\ T.op = "attach"
            /\ \/ T.out = "ok" /\ Attach(A, T.args.T, T.args.s, FALSE, "mech")
               \/ T.out = "ValueError" /\ AttachRejected(A, T.args.T)
SxDetach == /\ T.op = "detach"
            /\ \/ T.out = "ok" /\ Detach(A, T.args.T, FALSE, "mech")
               \/ T.out = "ComponentNotFoundError" /\ DetachRejected(A, T.args.T)
SxRegister == /\ T.op = "register"
              /\ \/ T.out = "ok" /\ RegisterRaw(M, A, T.args.T, T.args.s)
                 \/ T.out = "KeyError" /\ RegisterRawRejected(M, A, T.args.T, T.args.s)
SxDeregister == /\ T.op = "deregister"
                /\ \/ T.out = "ok" /\ DeregisterRaw(M, A, T.args.T, T.args.s)
                   \/ T.out = "KeyError" /\ DeregisterRawRejected(M, A, T.args.T, T.args.s)

SuiteNext == /\ l = 1 /\ l' = 2 /\ UNCHANGED tid
             /\ (SxJoin \/ SxLeave \/ SxAttach \/ SxDetach \/ SxRegister \/ SxDeregister)
             /\ PostOK(T.post) /\ MirrorKept
SuiteSpec == SuiteInit /\ [][SuiteNext]_tvars
Accepted == (l >= 2) => PrintT(<<"ACCEPT", tid, IF l = 3 THEN {"skipped"} ELSE {}>>)
Progress == PrintT(<<"AT", tid, l>>)
=============================================================================
