---------------------------- MODULE MC_Scheduler ----------------------------
(* Small-constant instances of Scheduler for TLC; one .cfg per property/tier. *)
EXTENDS Scheduler

Nop          == NopScript
CompleteSc   == [kind |-> "complete", rid |-> "", aobj |-> <<"", 0>>, ap |-> 0]
RemoveSc(id) == [kind |-> "remove", rid |-> id, aobj |-> <<"", 0>>, ap |-> 0]
AddSc(o, p)  == [kind |-> "add", rid |-> "", aobj |-> o, ap |-> p]

Objs_abc     == {<<"a", 1>>, <<"b", 1>>, <<"c", 1>>}
Objs_abca    == Objs_abc \cup {<<"a", 2>>}
Objs_abcd    == Objs_abc \cup {<<"d", 1>>}
Objs_abcda   == Objs_abcd \cup {<<"a", 2>>}
Objs_ab      == {<<"a", 1>>, <<"b", 1>>}
Objs_aba     == {<<"a", 1>>, <<"b", 1>>, <<"a", 2>>}

Prios_m101 == {-1, 0, 1}
Prios_01 == {0, 1}
Prios_012 == {0, 1, 2}
Prios_0 == {0}
Prios_5 == {-2, -1, 0, 1, 2}
Only_AlwaysOn == {AlwaysOn}
Only_Nop      == {Nop}

\* C02: the window alphabet
Win_C02 == {[start |-> s, end |-> e, freq |-> f] :
              s \in {-2, 0, 1, 3}, e \in {-3, 0, 1, 2, 3, 5, Forever}, f \in {1, 2, 3}}
Win_C02_small == {[start |-> s, end |-> e, freq |-> f] :
              s \in {-2, 0, 1}, e \in {-3, 0, 2, 3, Forever}, f \in {1, 2, 3}}
Win_few == {AlwaysOn, [start |-> 1, end |-> 2, freq |-> 2], [start |-> 0, end |-> 0, freq |-> 1]}

\* C05: everything a system may do to the system set while it runs
Scripts_C05(ids, newobjs, prios) ==
    {Nop, CompleteSc} \cup {RemoveSc(i) : i \in ids} \cup {AddSc(o, p) : o \in newobjs, p \in prios}
Scripts_C05_q == Scripts_C05({"a", "b", "c"}, {<<"n", 1>>, <<"b", 2>>}, {0, 1, 2})
Scripts_C05_t == Scripts_C05({"a", "b", "c", "d"}, {<<"n", 1>>, <<"b", 2>>, <<"b", 1>>}, {-1, 0, 1, 2})
Scripts_C05_s == {Nop, CompleteSc, RemoveSc("a"), RemoveSc("b"), RemoveSc("c"), AddSc(<<"n", 1>>, 0), AddSc(<<"n", 1>>, 2), AddSc(<<"b", 2>>, 1)}
Scripts_C05_4 == {Nop, RemoveSc("a"), RemoveSc("b"), RemoveSc("d"), AddSc(<<"n", 1>>, 0), AddSc(<<"n", 1>>, 2)}
Scripts_C06   == {Nop, CompleteSc}
Scripts_MBT_small == {Nop, CompleteSc, RemoveSc("a"), AddSc(<<"n", 1>>, 1)}
Win_two == {AlwaysOn, [start |-> 1, end |-> 2, freq |-> 2]}
Scripts_MBT   == {Nop, CompleteSc, RemoveSc("a"), RemoveSc("b"), AddSc(<<"n", 1>>, 1), AddSc(<<"n", 1>>, 0)}

\* liveness is checked without a state constraint (a constraint can hide non-progress cycles): requests are only issued while
\* the clock can still absorb them
Scripts_Live == {Nop, CompleteSc, RemoveSc("a"), RemoveSc("b"), AddSc(<<"n", 1>>, 1), AddSc(<<"b", 2>>, 0)}
LiveNext == Next /\ ((pending = 0 /\ pending' > 0) => clock + pending' <= 2)
LiveSpec == Init /\ [][LiveNext]_vars /\ WF_vars(StepActs)
LiveSpecUnfair == Init /\ [][LiveNext]_vars          \* negative control: without fairness a request may be left pending for ever
ClockAtMost1 == clock <= 1
ClockAtMost2 == clock <= 2
ClockAtMost3 == clock <= 3
ClockAtMost7 == clock <= 7
Depth12      == TLCGet("level") <= 12
=============================================================================
