\* C13: the code's filter equals the declarative match on every population over 2 types x tags {0,1,7}
SPECIFICATION Spec
CONSTANTS
  Models <- M1
  WorldKinds <- K_plain
  AgentObjs <- Ag_xyz
  Types <- T_AB
  TagVals <- Tags017
  Serials <- Ser1
  Coords <- None_
  Deltas <- None_
  Leeways <- None_
  Deviations <- NoDev
  Variants <- Mech
  Guests = FALSE
  TagTest = "isnone"
  BoxForm = "minmax"
INVARIANT C03_Mirror
INVARIANT C03_NoDupListing
INVARIANT C04_OnePerId
INVARIANT C04_EnvAgents
INVARIANT C04_LeaveEnabled
INVARIANT C08_Contained
INVARIANT C08_PosIffResidentSpatial
INVARIANT C13_AlgIsFilter
