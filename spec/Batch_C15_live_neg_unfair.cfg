\* C15 liveness: 4 tasks, 3 workers, negative control without fairness
SPECIFICATION Spec
CONSTANTS
  Part = "pool"
  PNames = {"a", "b", "c"}
  Shapes = {"scalar5", "float35", "none", "str_xy", "str_empty", "empty", "list1", "list11", "list12", "list321", "tuple34", "range2", "range0", "np78", "strs"}
  MaxDecl = 3
  NTasks = 4
  Workers = {"w1", "w2", "w3"}
  FailTasks = {}
  NCombos = 3
  NReps = 2
  ScoreVals <- SV0
  Sentinel = 1
  BestInit = "first"
  ErrorPolicy = "raise"
PROPERTY C15_BatchEnds
