------------------------------- MODULE World -------------------------------
(***************************************************************************)
(* ECAgent environments and component pools: models, agent objects,        *)
(* instance components, the environment (joining order), the component     *)
(* listings as the code maintains them (register on join / deregister on   *)
(* leave / manual calls), spatial worlds (continuous and grid) with        *)
(* placement, relative and absolute moves, positional and template/tag     *)
(* queries.  Properties C03 C04 C08 C12 C13 are stated at the end.         *)
(*                                                                         *)
(* An agent object a is <<id, serial>>.  A component instance of type T    *)
(* attached to a is identified by its serial; pool entries are             *)
(* <<owner, serial>>.  Coordinates are integers: quarter units in          *)
(* continuous worlds, cells in grid worlds.                                *)
(*                                                                         *)
(* Named deviation actions (known findings, see known_findings.json):      *)
(*   F1 attach to a resident agent without register_component: unlisted    *)
(*   F2 remove_agent with an unregistered component: KeyError half-way     *)
(*   F3 detach from a resident without deregister_component: stays listed  *)
(*   F6 attach+register on a resident: listed in registration order        *)
(*   F5 get_agents_at ignores wrap_env                                     *)
(* Every pool-changing action has a variant v: "mech" = what the code      *)
(* does, "ideal" = the listing demanded by C03 (so a repaired code base    *)
(* is accepted too).  dev collects the deviations a behaviour needed.      *)
(***************************************************************************)
EXTENDS Integers, Sequences, FiniteSets, TLC

CONSTANTS Models,      \* model names offered by Next
          WorldKinds,  \* world records offered to NewModel by Next
          AgentObjs,   \* agent objects offered by Next
          Types,       \* user-defined component types
          TagVals,     \* tags offered to NewAgent
          Serials,     \* component serials offered to Attach
          Coords,      \* coordinates offered to Place / MoveTo / queries
          Deltas,      \* deltas offered to Move
          Leeways,     \* leeways offered to AgentsAt
          Deviations,  \* which unsanctioned operations Next offers: subset of {"F1","F3","F6","RAW"}
          Guests,      \* Next also lets an agent built for one model join the environment of another
          Variants     \* {"mech"} for the exhaustive runs (the code); the trace spec also allows "ideal"

VARIABLES world,       \* m -> [kind, ext, wrap]     kind \in {"plain", "space", "grid"}; ext = <<W, H, D>>
          agents,      \* a -> [model, tag, comps]   comps = Seq(<<T, serial>>) in attachment order
          env,         \* m -> Seq(a)                joining order                          (Environment.agents)
          pool,        \* m -> [T -> Seq(<<a, serial>>)]                                     (SystemManager.component_pools)
          pos,         \* a -> <<x, y, z>> for agents that carry a position component
          dev          \* deviations used so far

vars == <<world, agents, env, pool, pos, dev>>

IdOf(a)       == a[1]
Range(s)      == {s[i] : i \in 1..Len(s)}
Without(s, x) == SelectSeq(s, LAMBDA y : y # x)
NoDup(s)      == \A i, j \in 1..Len(s) : i # j => s[i] # s[j]
WMax(x, y)    == IF x >= y THEN x ELSE y
WMin(x, y)    == IF x <= y THEN x ELSE y
WAbs(x)       == IF x >= 0 THEN x ELSE -x
Ext(f, k, v)  == [x \in DOMAIN f \cup {k} |-> IF x = k THEN v ELSE f[x]]
Drop(f, k)    == [x \in DOMAIN f \ {k} |-> f[x]]

HasTypeIn(AG, a, T)  == \E i \in 1..Len(AG[a].comps) : AG[a].comps[i][1] = T
SerialIn(AG, a, T)   == LET i == CHOOSE i \in 1..Len(AG[a].comps) : AG[a].comps[i][1] = T IN AG[a].comps[i][2]
HasType(a, T)        == HasTypeIn(agents, a, T)
ResidentIn(E, AG, a) == a \in DOMAIN AG /\ \E m \in DOMAIN E : a \in Range(E[m])
Resident(a)          == ResidentIn(env, agents, a)
\* the model whose environment the (resident) agent is in - not necessarily the model it was constructed for
HomeOf(a)            == CHOOSE m \in DOMAIN env : a \in Range(env[m])
Spatial(m)           == world[m].kind # "plain"
EmptyPool            == [T \in Types |-> <<>>]

(***************************************************************************)
(* C03: what the listing of type T in model m must be.                     *)
(***************************************************************************)
IdealOf(E, AG, m, T) == LET S == SelectSeq(E[m], LAMBDA a : HasTypeIn(AG, a, T))
                        IN [i \in 1..Len(S) |-> <<S[i], SerialIn(AG, S[i], T)>>]
IdealPoolOf(E, AG, m) == [T \in Types |-> IdealOf(E, AG, m, T)]
Ideal(m, T)           == IdealOf(env, agents, m, T)

(***************************************************************************)
(* The code's pool mechanics.                                              *)
(***************************************************************************)
RECURSIVE RegAll(_, _, _)
RegAll(P, a, cs)   == IF cs = <<>> THEN P
                      ELSE RegAll([P EXCEPT ![cs[1][1]] = Append(@, <<a, cs[1][2]>>)], a, Tail(cs))
RECURSIVE DeregAll(_, _, _)
DeregAll(P, a, cs) == IF cs = <<>> THEN P
                      ELSE DeregAll([P EXCEPT ![cs[1][1]] = Without(@, <<a, cs[1][2]>>)], a, Tail(cs))
Listed(P, a, c)    == <<a, c[2]>> \in Range(P[c[1]])
\* index of the first component of a that is not registered (0 = all registered)
FirstMissing(P, a, cs) == LET S == {i \in 1..Len(cs) : ~Listed(P, a, cs[i])}
                          IN IF S = {} THEN 0 ELSE CHOOSE i \in S : \A j \in S : i <= j

\* the pool of model m after an action: v = "mech": as computed by the code; "ideal": as C03 demands
PoolAfter(v, mechP, E2, AG2, m) == IF v = "mech" THEN mechP ELSE IdealPoolOf(E2, AG2, m)
\* the action newly breaks the mirror of model m (it held for some type before and does not hold after)
Breaks(m, P2, E2, AG2) == \E T \in Types : pool[m][T] = Ideal(m, T) /\ P2[T] # IdealOf(E2, AG2, m, T)
DevAfter(m, P2, E2, AG2, tag) == IF Breaks(m, P2, E2, AG2) THEN dev \cup {tag} ELSE dev

(***************************************************************************)
(* Geometry kernels (per axis).  e = extent, k = world kind.               *)
(***************************************************************************)
Hi(e, k)         == IF k = "grid" THEN e - 1 ELSE e              \* inclusive upper edge
InRange(p, e, k) == e = 0 \/ (0 <= p /\ p <= Hi(e, k))
Clamp(p, d, e, k) == WMax(WMin(p + d, Hi(e, k)), 0)
WrapTo(p, d, e)  == (p + d) % e                                  \* e > 0
AxisDist(p, q, e, wrap) == IF wrap /\ e > 0 THEN LET d == WAbs(p - q) % e IN WMin(d, e - d) ELSE WAbs(p - q)

(***************************************************************************)
(* Actions.                                                                *)
(***************************************************************************)
NewModel(m, w) ==
    /\ m \notin DOMAIN world
    /\ world' = Ext(world, m, w)
    /\ env' = Ext(env, m, <<>>)
    /\ pool' = Ext(pool, m, EmptyPool)
    /\ UNCHANGED <<agents, pos, dev>>

NewAgent(a, m, tg) ==
    /\ a \notin DOMAIN agents /\ m \in DOMAIN world
    /\ agents' = Ext(agents, a, [model |-> m, tag |-> tg, comps |-> <<>>])
    /\ UNCHANGED <<world, env, pool, pos, dev>>

IdTaken(m, i) == \E b \in Range(env[m]) : IdOf(b) = i

\* Environment.add_agent / SpaceWorld.add_agent(agent, x, y, z); p = <<>> in a plain world
PlaceOK(m, p) == IF Spatial(m) THEN Len(p) = 3 /\ \A ax \in 1..3 : InRange(p[ax], world[m].ext[ax], world[m].kind)
                 ELSE p = <<>>
Join(a, m, p, v) ==
    /\ a \in DOMAIN agents /\ ~Resident(a) /\ m \in DOMAIN world
    /\ ~IdTaken(m, IdOf(a))
    /\ PlaceOK(m, p)
    /\ \A i \in 1..Len(agents[a].comps) : ~Listed(pool[m], a, agents[a].comps[i])
    /\ LET E2 == [env EXCEPT ![m] = Append(@, a)] IN
       /\ env' = E2
       /\ pool' = [pool EXCEPT ![m] = PoolAfter(v, RegAll(pool[m], a, agents[a].comps), E2, agents, m)]
    /\ pos' = IF Spatial(m) THEN Ext(pos, a, p) ELSE pos
    /\ UNCHANGED <<world, agents, dev>>

\* index of the first component of a that is already listed (0 = none)
FirstListed(P, a, cs) == LET S == {i \in 1..Len(cs) : Listed(P, a, cs[i])}
                         IN IF S = {} THEN 0 ELSE CHOOSE i \in S : \A j \in S : i <= j
\* Environment.add_agent of an agent one of whose components was registered by hand before (low-level call on a non-resident):
\* the agent is entered, the components before the listed one are registered, then register_component raises KeyError.
\* In a spatial world the position component is never added (the base add raises first).
JoinHalfway(a, m) ==               \* KeyError
    /\ a \in DOMAIN agents /\ ~Resident(a) /\ m \in DOMAIN world
    /\ ~IdTaken(m, IdOf(a))
    /\ LET cs == agents[a].comps
           k  == FirstListed(pool[m], a, cs)
       IN /\ k # 0
          /\ env' = [env EXCEPT ![m] = Append(@, a)]
          /\ pool' = [pool EXCEPT ![m] = RegAll(@, a, SubSeq(cs, 1, k - 1))]
    /\ dev' = dev \cup {"RAW"}
    /\ UNCHANGED <<world, agents, pos>>

JoinRejectedDup(a, m) ==           \* DuplicateAgentError
    /\ a \in DOMAIN agents /\ m \in DOMAIN world /\ IdTaken(m, IdOf(a))
    /\ UNCHANGED vars

\* out of bounds on an axis of positive extent: must be rejected.  On an axis of extent 0 a non-zero
\* coordinate may be rejected or accepted (DESIGN 3.2)
MustReject(m, p) == \E ax \in 1..3 : world[m].ext[ax] > 0 /\ ~InRange(p[ax], world[m].ext[ax], world[m].kind)
MayReject(m, p)  == MustReject(m, p) \/ \E ax \in 1..3 : world[m].ext[ax] = 0 /\ p[ax] # 0
JoinRejectedOOB(a, m, p) ==        \* Exception('Cannot add the Agent to position not on the map.')
    /\ a \in DOMAIN agents /\ m \in DOMAIN world /\ Spatial(m) /\ Len(p) = 3
    /\ MayReject(m, p)
    /\ UNCHANGED vars

\* Environment.remove_agent(id)
Leave(m, i, v) ==
    /\ m \in DOMAIN world /\ IdTaken(m, i)
    /\ LET a  == CHOOSE b \in Range(env[m]) : IdOf(b) = i
           cs == agents[a].comps
           k  == FirstMissing(pool[m], a, cs)
       IN /\ ((v = "mech" /\ Spatial(m)) => a \in DOMAIN pos)
          /\ IF v = "mech" /\ k # 0
             THEN \* F2: KeyError after deregistering the components before the missing one; the agent stays
                  /\ pool' = [pool EXCEPT ![m] = DeregAll(@, a, SubSeq(cs, 1, k - 1))]
                  /\ pos' = IF a \in DOMAIN pos THEN Drop(pos, a) ELSE pos      \* SpaceWorld drops the position first
                  /\ dev' = dev \cup {"F2"}
                  /\ UNCHANGED <<world, agents, env>>
             ELSE LET E2 == [env EXCEPT ![m] = Without(@, a)] IN
                  /\ env' = E2
                  /\ pool' = [pool EXCEPT ![m] = PoolAfter(v, DeregAll(@, a, cs), E2, agents, m)]
                  /\ pos' = IF a \in DOMAIN pos THEN Drop(pos, a) ELSE pos
                  /\ UNCHANGED <<world, agents, dev>>
LeaveIsF2(m, i) == LET a == CHOOSE b \in Range(env[m]) : IdOf(b) = i
                   IN FirstMissing(pool[m], a, agents[a].comps) # 0

\* consequence of F2 in a spatial world: the agent is still resident but its position is gone, so
\* SpaceWorld.remove_agent fails on remove_component(PositionComponent) before anything else happens
LeaveZombie(m, i) ==               \* ComponentNotFoundError
    /\ m \in DOMAIN world /\ IdTaken(m, i) /\ Spatial(m)
    /\ (CHOOSE b \in Range(env[m]) : IdOf(b) = i) \notin DOMAIN pos
    /\ dev # {}                     \* after F2, or after a join that stopped half-way (low-level calls)
    /\ UNCHANGED vars

LeaveRejected(m, i) ==             \* AgentNotFoundError
    /\ m \in DOMAIN world /\ ~IdTaken(m, i)
    /\ UNCHANGED vars

\* Agent.add_component; reg = the caller also calls register_component
Attach(a, T, s, reg, v) ==
    /\ a \in DOMAIN agents /\ ~HasType(a, T)
    /\ LET AG2 == [agents EXCEPT ![a].comps = Append(@, <<T, s>>)]
       IN /\ agents' = AG2
          /\ IF Resident(a)
             THEN LET m    == HomeOf(a)
                      mech == IF reg THEN [pool[m] EXCEPT ![T] = Append(@, <<a, s>>)] ELSE pool[m]
                      P2   == PoolAfter(v, mech, env, AG2, m)
                  IN /\ (reg => <<a, s>> \notin Range(pool[m][T]))
                     /\ pool' = [pool EXCEPT ![m] = P2]
                     /\ dev' = DevAfter(m, P2, env, AG2, IF reg THEN "F6" ELSE "F1")
             ELSE ~reg /\ UNCHANGED <<pool, dev>>
    /\ UNCHANGED <<world, env, pos>>

AttachRejected(a, T) ==            \* ValueError: already has a component of that type
    /\ a \in DOMAIN agents /\ HasType(a, T)
    /\ UNCHANGED vars

\* Agent.remove_component; dereg = the caller first calls deregister_component
Detach(a, T, dereg, v) ==
    /\ a \in DOMAIN agents /\ HasType(a, T)
    /\ LET s   == SerialIn(agents, a, T)
           AG2 == [agents EXCEPT ![a].comps = SelectSeq(@, LAMBDA c : c[1] # T)]
       IN /\ agents' = AG2
          /\ IF Resident(a)
             THEN LET m    == HomeOf(a)
                      mech == IF dereg THEN [pool[m] EXCEPT ![T] = Without(@, <<a, s>>)] ELSE pool[m]
                      P2   == PoolAfter(v, mech, env, AG2, m)
                  IN /\ (dereg => <<a, s>> \in Range(pool[m][T]))
                     /\ pool' = [pool EXCEPT ![m] = P2]
                     /\ dev' = DevAfter(m, P2, env, AG2, "F3")
             ELSE ~dereg /\ UNCHANGED <<pool, dev>>
    /\ UNCHANGED <<world, env, pos>>

\* consequence of F1: deregister_component of a component that was never listed raises, nothing is detached
DetachDeregRejected(a, T) ==       \* KeyError
    /\ a \in DOMAIN agents /\ HasType(a, T) /\ Resident(a)
    /\ <<a, SerialIn(agents, a, T)>> \notin Range(pool[HomeOf(a)][T])
    /\ dev # {}
    /\ UNCHANGED vars

DetachRejected(a, T) ==            \* ComponentNotFoundError
    /\ a \in DOMAIN agents /\ ~HasType(a, T)
    /\ UNCHANGED vars

\* SystemManager.register_component / deregister_component called by the user for a component a carries
RegisterManual(a, T, v) ==
    /\ a \in DOMAIN agents /\ HasType(a, T) /\ Resident(a)
    /\ LET m == HomeOf(a)
           s == SerialIn(agents, a, T)
       IN /\ <<a, s>> \notin Range(pool[m][T])
          /\ LET P2 == PoolAfter(v, [pool[m] EXCEPT ![T] = Append(@, <<a, s>>)], env, agents, m)
             IN pool' = [pool EXCEPT ![m] = P2] /\ dev' = DevAfter(m, P2, env, agents, "F6")
    /\ UNCHANGED <<world, agents, env, pos>>

RegisterRejected(a, T) ==          \* KeyError: already registered
    /\ a \in DOMAIN agents /\ HasType(a, T) /\ Resident(a)
    /\ <<a, SerialIn(agents, a, T)>> \in Range(pool[HomeOf(a)][T])
    /\ UNCHANGED vars

\* SystemManager.register_component(c) / deregister_component(c) on their own: the low-level listing API.  The
\* owner need not be resident and the component need not be attached; s is the component's serial.
RegisterRaw(m, a, T, s) ==
    /\ m \in DOMAIN world /\ a \in DOMAIN agents
    /\ <<a, s>> \notin Range(pool[m][T])
    /\ LET P2 == [pool[m] EXCEPT ![T] = Append(@, <<a, s>>)]
       IN pool' = [pool EXCEPT ![m] = P2] /\ dev' = DevAfter(m, P2, env, agents, "RAW")
    /\ UNCHANGED <<world, agents, env, pos>>

RegisterRawRejected(m, a, T, s) == \* KeyError: already registered
    /\ m \in DOMAIN world /\ <<a, s>> \in Range(pool[m][T])
    /\ UNCHANGED vars

DeregisterRaw(m, a, T, s) ==
    /\ m \in DOMAIN world /\ a \in DOMAIN agents
    /\ <<a, s>> \in Range(pool[m][T])
    /\ LET P2 == [pool[m] EXCEPT ![T] = Without(@, <<a, s>>)]
       IN pool' = [pool EXCEPT ![m] = P2] /\ dev' = DevAfter(m, P2, env, agents, "RAW")
    /\ UNCHANGED <<world, agents, env, pos>>

DeregisterRawRejected(m, a, T, s) == \* KeyError: never registered
    /\ m \in DOMAIN world /\ <<a, s>> \notin Range(pool[m][T])
    /\ UNCHANGED vars

(***************************************************************************)
(* Spatial operations.                                                     *)
(***************************************************************************)
\* SpaceWorld.move(agent, dx, dy, dz).  On an axis of extent 0 the result is not constrained (DESIGN 3.2):
\* free[ax] is the coordinate the behaviour chooses there.
MoveTarget(m, p, d, free) ==
    [ax \in 1..3 |->
        LET e == world[m].ext[ax] IN
        IF e = 0 THEN free[ax]
        ELSE IF world[m].wrap THEN WrapTo(p[ax], d[ax], e) ELSE Clamp(p[ax], d[ax], e, world[m].kind)]
Move(a, d, free) ==
    /\ a \in DOMAIN pos
    /\ pos' = [pos EXCEPT ![a] = MoveTarget(HomeOf(a), pos[a], d, free)]
    /\ UNCHANGED <<world, agents, env, pool, dev>>

MoveRejected(a) ==                 \* ComponentNotFoundError: the agent has no position
    /\ a \in DOMAIN agents /\ a \notin DOMAIN pos
    /\ UNCHANGED vars

\* SpaceWorld.move_to(agent, x, y, z)
MoveTo(a, p) ==
    /\ a \in DOMAIN pos
    /\ ~MustReject(HomeOf(a), p)
    /\ pos' = [pos EXCEPT ![a] = p]
    /\ UNCHANGED <<world, agents, env, pool, dev>>

MoveToRejected(a, p) ==            \* IndexError (out of range) / ComponentNotFoundError (no position)
    /\ a \in DOMAIN agents
    /\ a \in DOMAIN pos => MayReject(HomeOf(a), p)
    /\ UNCHANGED vars

(***************************************************************************)
(* Queries (results are definitions; the actions that ask leave the state  *)
(* unchanged).                                                             *)
(***************************************************************************)
Lookup(m, i)   == IF IdTaken(m, i) THEN CHOOSE b \in Range(env[m]) : IdOf(b) = i ELSE <<"None", 0>>

Match(a, tpl, hastag, tg) == (\A T \in tpl : HasType(a, T)) /\ (hastag => agents[a].tag = tg)
GetAgents(m, tpl, hastag, tg) == SelectSeq(env[m], LAMBDA a : Match(a, tpl, hastag, tg))
MatchSet(m, tpl, hastag, tg)  == Range(GetAgents(m, tpl, hastag, tg))

Leeway(l, al, ax) == WMax(l, al[ax])
\* qs = 1: query point and leeways in the world's own units; qs = 4: in quarter units (fractional queries in a grid world)
InBoxQ(m, a, q, l, al, seam, qs) ==
    a \in DOMAIN pos /\ \A ax \in 1..3 :
        AxisDist(qs * pos[a][ax], q[ax], qs * world[m].ext[ax], seam) <= Leeway(l, al, ax)
InBox(m, a, q, l, al, seam) == InBoxQ(m, a, q, l, al, seam, 1)
AgentsAtQ(m, q, l, al, seam, qs) == SelectSeq(env[m], LAMBDA a : InBoxQ(m, a, q, l, al, seam, qs))
AgentsAt(m, q, l, al, seam) == AgentsAtQ(m, q, l, al, seam, 1)
\* what a positional query must answer; in a wrapping world the plain box is the known finding F5
AgentsAtSpec(m, q, l, al) == AgentsAt(m, q, l, al, world[m].wrap)


(***************************************************************************)
(* The code's algorithms for the two query families, stated next to the    *)
(* declarative definitions so that TLC checks them equal (C12, C13).       *)
(***************************************************************************)
Triple(S) == {<<x, y, z>> : x \in S, y \in S, z \in S}

CONSTANTS TagTest,     \* "isnone" = the code (`if tag is not None`) | "truthy" = negative control (`if tag:`)
          BoxForm      \* "minmax" = the code | "general" = negative control (ignores the per-axis leeway)
AlgInBox(a, q, l, al) ==
    \A ax \in 1..3 :
        LET lo == IF BoxForm = "minmax" THEN WMin(q[ax] - al[ax], q[ax] - l) ELSE q[ax] - l
            hi == IF BoxForm = "minmax" THEN WMax(q[ax] + al[ax], q[ax] + l) ELSE q[ax] + l
        IN lo <= pos[a][ax] /\ pos[a][ax] <= hi
AlgAgentsAt(m, q, l, al) == SelectSeq(env[m], LAMBDA a : a \in DOMAIN pos /\ AlgInBox(a, q, l, al))
AlgGetAgents(m, tpl, hastag, tg) ==
    LET byT == IF tpl = {} THEN env[m] ELSE SelectSeq(env[m], LAMBDA a : \A T \in tpl : HasType(a, T))
        useTag == IF TagTest = "isnone" THEN hastag ELSE hastag /\ tg # 0
    IN IF useTag THEN SelectSeq(byT, LAMBDA a : agents[a].tag = tg) ELSE byT

C12_AlgIsBox == \A m \in DOMAIN world : Spatial(m) =>
                   \A q \in Triple(Coords), l \in Leeways, xl \in Leeways, yl \in Leeways :
                      AlgAgentsAt(m, q, l, <<xl, yl, l>>) = AgentsAt(m, q, l, <<xl, yl, l>>, FALSE)
\* the seam-aware box contains the plain box, and they coincide when nothing is near the seam
C12_SeamContainsPlain == \A m \in DOMAIN world : Spatial(m) =>
                   \A q \in Triple(Coords), l \in Leeways :
                      Range(AgentsAt(m, q, l, <<l, l, l>>, FALSE)) \subseteq Range(AgentsAt(m, q, l, <<l, l, l>>, TRUE))
C12_PlainIsSeam == \A m \in DOMAIN world : (Spatial(m) /\ world[m].wrap) =>
                   \A q \in Triple(Coords), l \in Leeways :
                      AgentsAt(m, q, l, <<l, l, l>>, FALSE) = AgentsAt(m, q, l, <<l, l, l>>, TRUE)
C13_AlgIsFilter == \A m \in DOMAIN world : \A tpl \in SUBSET (Types \cup {"Z"}), hastag \in BOOLEAN, tg \in TagVals \cup {5} :
                      AlgGetAgents(m, tpl, hastag, tg) = GetAgents(m, tpl, hastag, tg)
-----------------------------------------------------------------------------
Init == /\ world = << >> /\ agents = << >> /\ env = << >> /\ pool = << >> /\ pos = << >> /\ dev = {}

AllPlaceArgs == Triple(Coords) \cup {<<>>}

\* what Next offers (named, with all parameters, so that TLC labels the edges of the dumped graph)
OfferJoin(a, m, p, v) == a \in DOMAIN agents /\ (Guests \/ m = agents[a].model) /\ Join(a, m, p, v)
OfferAttach(a, T, s, reg, v) ==
    /\ a \in DOMAIN agents
    /\ (Resident(a) /\ ~reg) => "F1" \in Deviations
    /\ (Resident(a) /\ reg /\ \E j \in 1..Len(env[HomeOf(a)]) :
            LET b == env[HomeOf(a)][j] IN
            HasType(b, T) /\ \E i \in 1..Len(env[HomeOf(a)]) : i < j /\ env[HomeOf(a)][i] = a)
          => "F6" \in Deviations
    /\ Attach(a, T, s, reg, v)
OfferDetach(a, T, dereg, v) ==
    /\ a \in DOMAIN agents
    /\ (Resident(a) /\ ~dereg) => "F3" \in Deviations
    /\ Detach(a, T, dereg, v)
OfferMove(a, d) == Move(a, d, <<0, 0, 0>>)
\* the low-level calls are offered for components an agent carries (of its own model's listings)
OfferRegisterRaw(a, T) ==
    /\ "RAW" \in Deviations /\ a \in DOMAIN agents /\ HasType(a, T)
    /\ RegisterRaw(agents[a].model, a, T, SerialIn(agents, a, T))
OfferJoinHalfway(a) == "RAW" \in Deviations /\ a \in DOMAIN agents /\ JoinHalfway(a, agents[a].model)
OfferDeregisterRaw(a, T) ==
    /\ "RAW" \in Deviations /\ a \in DOMAIN agents /\ HasType(a, T)
    /\ DeregisterRaw(agents[a].model, a, T, SerialIn(agents, a, T))

Next ==
    \/ \E m \in Models, w \in WorldKinds : NewModel(m, w)
    \/ \E a \in AgentObjs, m \in Models, tg \in TagVals : NewAgent(a, m, tg)
    \/ \E a \in AgentObjs, m \in Models, p \in AllPlaceArgs, v \in Variants : OfferJoin(a, m, p, v)
    \/ \E a \in AgentObjs, m \in Models : JoinRejectedDup(a, m)
    \/ \E a \in AgentObjs, m \in Models, p \in Triple(Coords) : JoinRejectedOOB(a, m, p)
    \/ \E m \in Models, a \in AgentObjs, v \in Variants : Leave(m, IdOf(a), v)
    \/ \E m \in Models, a \in AgentObjs : LeaveRejected(m, IdOf(a))
    \/ \E a \in AgentObjs, T \in Types, s \in Serials, reg \in BOOLEAN, v \in Variants : OfferAttach(a, T, s, reg, v)
    \/ \E a \in AgentObjs, T \in Types : AttachRejected(a, T)
    \/ \E a \in AgentObjs, T \in Types, dereg \in BOOLEAN, v \in Variants : OfferDetach(a, T, dereg, v)
    \/ \E a \in AgentObjs, T \in Types : DetachRejected(a, T)
    \/ \E a \in AgentObjs, T \in Types, v \in Variants : RegisterManual(a, T, v)
    \/ \E a \in AgentObjs, T \in Types : RegisterRejected(a, T)
    \/ \E a \in AgentObjs, T \in Types : OfferRegisterRaw(a, T)
    \/ \E a \in AgentObjs : OfferJoinHalfway(a)
    \/ \E a \in AgentObjs, T \in Types : OfferDeregisterRaw(a, T)
    \/ \E a \in AgentObjs, d \in Triple(Deltas) : OfferMove(a, d)
    \/ \E a \in AgentObjs : MoveRejected(a)
    \/ \E a \in AgentObjs, p \in Triple(Coords) : MoveTo(a, p)
    \/ \E a \in AgentObjs, p \in Triple(Coords) : MoveToRejected(a, p)

Spec == Init /\ [][Next]_vars

-----------------------------------------------------------------------------
(***************************************************************************)
(* Properties.                                                             *)
(***************************************************************************)
C03_Mirror    == dev = {} => \A m \in DOMAIN world : \A T \in Types : pool[m][T] = Ideal(m, T)
C03_NoDupListing == \A m \in DOMAIN world : \A T \in Types : NoDup(pool[m][T])
\* an action changes the environment / listings of at most one model, and only of the acting agent's model
C03_Isolation == [][\A m \in DOMAIN world :
                       (pool'[m] # pool[m] \/ env'[m] # env[m]) =>
                          \A n \in DOMAIN world \ {m} : pool'[n] = pool[n] /\ env'[n] = env[n]]_vars
C04_OnePerId  == \A m \in DOMAIN world : \A i, j \in 1..Len(env[m]) : i # j => IdOf(env[m][i]) # IdOf(env[m][j])
C04_EnvAgents == \A m \in DOMAIN world : \A a \in Range(env[m]) :
                    a \in DOMAIN agents /\ \A n \in DOMAIN world \ {m} : a \notin Range(env[n])
C04_LeaveEnabled == \A m \in DOMAIN world : \A a \in Range(env[m]) :
                       FirstMissing(pool[m], a, agents[a].comps) = 0 => ENABLED Leave(m, IdOf(a), "mech")
C08_Contained == \A a \in DOMAIN pos : \A ax \in 1..3 :
                    LET w == world[HomeOf(a)] IN
                    w.ext[ax] > 0 => 0 <= pos[a][ax] /\ pos[a][ax] <= Hi(w.ext[ax], w.kind)
C08_PosIffResidentSpatial ==
    dev = {} => \A a \in DOMAIN agents : (a \in DOMAIN pos) <=> (Resident(a) /\ Spatial(HomeOf(a)))
\* kernels: containment of Clamp and WrapTo for every argument offered
C08_Kernels   == \A e \in 1..6 : \A p \in 0..e : \A d \in -14..14 :
                    /\ (p <= e - 1 => Clamp(p, d, e, "grid") \in 0..(e - 1))
                    /\ Clamp(p, d, e, "space") \in 0..e
                    /\ WrapTo(p, d, e) \in 0..(e - 1)
                    /\ (WrapTo(p, d, e) - (p + d)) % e = 0
                    /\ (0 <= p + d /\ p + d <= e => Clamp(p, d, e, "space") = p + d)
                    /\ (p + d > e => Clamp(p, d, e, "space") = e) /\ (p + d < 0 => Clamp(p, d, e, "space") = 0)
=============================================================================
