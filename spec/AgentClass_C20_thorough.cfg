\* C20: hierarchy Agent/Environment/A/B/A1, 2 component types, tags {0,1,2}, up to 2 instances
SPECIFICATION Spec
CONSTANTS
  Classes = {"Agent", "Environment", "A", "B", "A1"}
  Types = {"P"}
  TagVals = {0, 1, 2}
  MaxInst = 2
  TagDefault = "own"
PROPERTY C20_Isolation
PROPERTY C20_DefaultTag
PROPERTY C20_DefaultOwn
PROPERTY C20_InstanceSep
