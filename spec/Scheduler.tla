------------------------------ MODULE Scheduler ------------------------------
(***************************************************************************)
(* ECAgent.Core.SystemManager / Model: registry of systems, execution      *)
(* queue (maintained by the code's insertion algorithm), clock, model      *)
(* status, and the timestep as BeginStep / Visit* / EndStep so that a      *)
(* system that mutates the system set while it runs (its "script") is one  *)
(* Visit.  Properties C01, C02, C05, C06 are stated at the end.            *)
(*                                                                         *)
(* An object o is a pair <<id, serial>>: IdOf(o) is the `id` attribute the *)
(* code sees, the serial distinguishes different Python objects carrying   *)
(* the same id.                                                            *)
(***************************************************************************)
EXTENDS Integers, Sequences, FiniteSets, TLC

CONSTANTS Objs,        \* set of <<id, serial>>
          Prios,       \* priorities offered to AddSystem by Next
          Windows,     \* set of [start, end, freq] offered to AddSystem by Next
          Scripts,     \* set of scripts offered to AddSystem by Next
          MaxN,        \* Request(n) for n \in 1..MaxN
          Iteration,   \* "snapshot" = the code (after fix 6770a21) | "live" = original loop over the list being mutated
          InsertCmp,   \* "gt" = the code | "geq" = negative control
          WindowTest   \* "code" = (start - t) % freq | "tmodf" = t % freq, negative control (the 0.5.1 defect class)

Forever == 999999      \* stands for sys.maxsize in `end`

VARIABLES reg,         \* id -> [obj, prio, start, end, freq, sc]        (SystemManager.systems)
          queue,       \* Seq(obj)                                        (SystemManager.execution_queue)
          regOrder,    \* history: objects in order of their (latest) registration; used only to STATE C01
          clock,       \* SystemManager.timestep
          status,      \* "RUNNING" | "COMPLETE"
          pending,     \* steps still owed to the current Model.execute(n) request
          step         \* the timestep in progress (or Idle), with history fields used to STATE C05/C06

vars == <<reg, queue, regOrder, clock, status, pending, step>>

IdOf(o)   == o[1]
Range(s)  == {s[i] : i \in 1..Len(s)}
NoDup(s)  == \A i, j \in 1..Len(s) : i # j => s[i] # s[j]
Without(s, x) == SelectSeq(s, LAMBDA y : y # x)
SMin(S)   == CHOOSE x \in S : \A y \in S : x <= y
Before(s, a, b) == \E i, j \in 1..Len(s) : i < j /\ s[i] = a /\ s[j] = b

NopScript == [kind |-> "nop", rid |-> "", aobj |-> <<"", 0>>, ap |-> 0]
AlwaysOn  == [start |-> 0, end |-> Forever, freq |-> 1]
Idle      == [active |-> FALSE, snap |-> <<>>, idx |-> 0, ran |-> <<>>, start |-> {}, removed |-> {},
              added |-> {}, completer |-> <<>>]

Registered(o)  == IdOf(o) \in DOMAIN reg /\ reg[IdOf(o)].obj = o
RegisteredObjs == {reg[i].obj : i \in DOMAIN reg}
PrioOf(o)      == reg[IdOf(o)].prio

(***************************************************************************)
(* The activation window: declarative reading (C02) and the code's test.   *)
(***************************************************************************)
Eligible(r, t)    == r.start <= t /\ t <= r.end /\ (t - r.start) % r.freq = 0
EligibleAlg(r, t) == r.start <= t /\ t <= r.end /\
                     (IF WindowTest = "code" THEN (r.start - t) % r.freq = 0 ELSE t % r.freq = 0)

(***************************************************************************)
(* Registry operations.  Usable between timesteps and from inside a system *)
(* (then the history fields of `step` record what happened).               *)
(***************************************************************************)
Cmp(p, q)    == IF InsertCmp = "gt" THEN p > q ELSE p >= q
InsertPos(p) == LET S == {i \in 1..Len(queue) : Cmp(p, PrioOf(queue[i]))}
                IN IF S = {} THEN Len(queue) + 1 ELSE SMin(S)
InsertAt(s, k, x) == SubSeq(s, 1, k - 1) \o <<x>> \o SubSeq(s, k, Len(s))

AddSystem(o, p, w, sc) ==
    /\ IdOf(o) \notin DOMAIN reg
    /\ reg' = [i \in DOMAIN reg \cup {IdOf(o)} |->
                 IF i = IdOf(o) THEN [obj |-> o, prio |-> p, start |-> w.start, end |-> w.end,
                                      freq |-> w.freq, sc |-> sc]
                 ELSE reg[i]]
    /\ queue' = InsertAt(queue, InsertPos(p), o)
    /\ regOrder' = Append(Without(regOrder, o), o)
    /\ step' = IF step.active THEN [step EXCEPT !.added = @ \cup {o}] ELSE step
    /\ UNCHANGED <<clock, status, pending>>

AddSystemRejected(o) ==          \* KeyError: identifier in use
    /\ IdOf(o) \in DOMAIN reg
    /\ UNCHANGED vars

RemoveSystem(id) ==
    /\ id \in DOMAIN reg
    /\ LET o == reg[id].obj IN
       /\ reg' = [i \in DOMAIN reg \ {id} |-> reg[i]]
       /\ queue' = Without(queue, o)
       /\ regOrder' = Without(regOrder, o)
       /\ step' = IF step.active THEN [step EXCEPT !.removed = @ \cup {o}] ELSE step
    /\ UNCHANGED <<clock, status, pending>>

RemoveSystemRejected(id) ==      \* SystemNotFoundError
    /\ id \notin DOMAIN reg
    /\ UNCHANGED vars

Complete ==                       \* Model.complete(), from outside or from a system
    /\ status' = "COMPLETE"
    /\ step' = IF step.active /\ status = "RUNNING" /\ step.ran # <<>>
               THEN [step EXCEPT !.completer = step.ran[Len(step.ran)]] ELSE step
    /\ UNCHANGED <<reg, queue, regOrder, clock, pending>>

(***************************************************************************)
(* Advancing the model.                                                    *)
(***************************************************************************)
Request(n) ==                     \* Model.execute(n) / SystemManager.execute_systems() (n = 1)
    /\ ~step.active /\ pending = 0
    /\ pending' = n
    /\ UNCHANGED <<reg, queue, regOrder, clock, status, step>>

BeginStep ==
    /\ ~step.active /\ pending > 0 /\ status = "RUNNING"
    /\ pending' = pending - 1
    /\ step' = [active |-> TRUE, snap |-> queue, idx |-> 0, ran |-> <<>>, start |-> Range(queue),
                removed |-> {}, added |-> {}, completer |-> <<>>]
    /\ UNCHANGED <<reg, queue, regOrder, clock, status>>

StepWhenComplete ==               \* a request on a completed model: nothing happens (or ModelCompleteError)
    /\ ~step.active /\ pending > 0 /\ status = "COMPLETE"
    /\ pending' = pending - 1
    /\ UNCHANGED <<reg, queue, regOrder, clock, status, step>>

IterSeq == IF Iteration = "snapshot" THEN step.snap ELSE queue

\* what the system that is being visited does
RunScript(o) ==
    LET sc == reg[IdOf(o)].sc
        st == [step EXCEPT !.idx = @ + 1, !.ran = Append(@, o)]
    IN CASE sc.kind = "nop" ->
              /\ step' = st /\ UNCHANGED <<reg, queue, regOrder, clock, status, pending>>
         [] sc.kind = "complete" ->
              /\ status' = "COMPLETE" /\ step' = [st EXCEPT !.completer = o]
              /\ UNCHANGED <<reg, queue, regOrder, clock, pending>>
         [] sc.kind = "remove" ->
              IF sc.rid \in DOMAIN reg
              THEN LET x == reg[sc.rid].obj IN
                   /\ reg' = [i \in DOMAIN reg \ {sc.rid} |-> reg[i]]
                   /\ queue' = Without(queue, x)
                   /\ regOrder' = Without(regOrder, x)
                   /\ step' = [st EXCEPT !.removed = @ \cup {x}]
                   /\ UNCHANGED <<clock, status, pending>>
              ELSE step' = st /\ UNCHANGED <<reg, queue, regOrder, clock, status, pending>>
         [] sc.kind = "add" ->
              IF IdOf(sc.aobj) \notin DOMAIN reg
              THEN /\ reg' = [i \in DOMAIN reg \cup {IdOf(sc.aobj)} |->
                                IF i = IdOf(sc.aobj)
                                THEN [obj |-> sc.aobj, prio |-> sc.ap, start |-> 0, end |-> Forever,
                                      freq |-> 1, sc |-> NopScript]
                                ELSE reg[i]]
                   /\ queue' = InsertAt(queue, InsertPos(sc.ap), sc.aobj)
                   /\ regOrder' = Append(Without(regOrder, sc.aobj), sc.aobj)
                   /\ step' = [st EXCEPT !.added = @ \cup {sc.aobj}]
                   /\ UNCHANGED <<clock, status, pending>>
              ELSE step' = st /\ UNCHANGED <<reg, queue, regOrder, clock, status, pending>>

Visit ==                          \* one iteration of the loop in execute_systems
    /\ step.active /\ status = "RUNNING" /\ step.idx < Len(IterSeq)
    /\ LET o == IterSeq[step.idx + 1] IN
       IF Registered(o)
       THEN IF EligibleAlg(reg[IdOf(o)], clock)
            THEN RunScript(o)
            ELSE step' = [step EXCEPT !.idx = @ + 1] /\ UNCHANGED <<reg, queue, regOrder, clock, status, pending>>
       ELSE \* only reachable with Iteration = "snapshot": removed earlier in this timestep -> skipped
            step' = [step EXCEPT !.idx = @ + 1] /\ UNCHANGED <<reg, queue, regOrder, clock, status, pending>>

EndStep ==
    /\ step.active /\ (status = "COMPLETE" \/ step.idx >= Len(IterSeq))
    /\ clock' = clock + 1
    /\ step' = Idle
    /\ UNCHANGED <<reg, queue, regOrder, status, pending>>

Between == ~step.active /\ pending = 0

Init == /\ reg = << >> /\ queue = <<>> /\ regOrder = <<>> /\ clock = 0 /\ status = "RUNNING"
        /\ pending = 0 /\ step = Idle

\* Registry operations offered between requests (a system's script reaches them from inside a Visit)
TopAdd(o, p, w, sc)     == Between /\ AddSystem(o, p, w, sc)
TopAddRejected(o)       == Between /\ AddSystemRejected(o)
TopRemove(id)           == Between /\ RemoveSystem(id)
TopRemoveRejected(id)   == Between /\ RemoveSystemRejected(id)
TopComplete             == Between /\ status = "RUNNING" /\ Complete

Next == \/ \E o \in Objs, p \in Prios, w \in Windows, sc \in Scripts : TopAdd(o, p, w, sc)
        \/ \E o \in Objs : TopAddRejected(o)
        \/ \E o \in Objs : TopRemove(IdOf(o))
        \/ \E o \in Objs : TopRemoveRejected(IdOf(o))
        \/ TopComplete
        \/ \E n \in 1..MaxN : Request(n)
        \/ BeginStep \/ StepWhenComplete \/ Visit \/ EndStep

Spec == Init /\ [][Next]_vars

\* Liveness: every request is worked off - each requested timestep begins, visits every system of its iteration sequence and
\* ends (or is refused once the model is complete).  Fairness only on the scheduler's own steps; what happens between requests
\* is the user's choice.  The implementation side of this property is the drivers' program budget (a program that does not end
\* is a `runaway` event, which no trace specification explains).
StepActs == BeginStep \/ StepWhenComplete \/ Visit \/ EndStep
FairSpec == Spec /\ WF_vars(StepActs)
C02_RequestEnds == (pending > 0 \/ step.active) ~> (pending = 0 /\ ~step.active)

-----------------------------------------------------------------------------
(***************************************************************************)
(* Properties.  Obligations are operators over explicit arguments so that  *)
(* Scheduler_Trace.tla applies the very same formulas to observed steps.   *)
(***************************************************************************)
\* a ranks before b: higher priority, or equal priority and registered earlier
Rank(R, ord, a, b) == R[IdOf(a)].prio > R[IdOf(b)].prio
                      \/ (R[IdOf(a)].prio = R[IdOf(b)].prio /\ Before(ord, a, b))

C01_Registry == /\ NoDup(queue)
                /\ Range(queue) = RegisteredObjs
                /\ \A i \in DOMAIN reg : IdOf(reg[i].obj) = i
                /\ Range(regOrder) = RegisteredObjs /\ NoDup(regOrder)

C01_Ordered  == \A i, j \in 1..Len(queue) : i < j => Rank(reg, regOrder, queue[i], queue[j])

C02_AlgIsDecl == \A i \in DOMAIN reg : \A t \in 0..(clock + 3) : EligibleAlg(reg[i], t) <=> Eligible(reg[i], t)

\* objects registered during the whole of the timestep st, judged when it ends with registry R
Stayers(st, R) == {o \in st.start : IdOf(o) \in DOMAIN R /\ R[IdOf(o)].obj = o} \ (st.removed \cup st.added)

\* what a finished timestep must look like (st = its history, R/ord/stat/t = registry, registration
\* order, status and clock when it ends)
StepNoRerun(st)            == NoDup(st.ran)
CompleterKnown(st, R)      == st.completer # <<>> /\ IdOf(st.completer) \in DOMAIN R /\ R[IdOf(st.completer)].obj = st.completer
\* s did not get its turn because the model was completed by a system that does not rank after s
CutShort(st, R, ord, s)    == IF CompleterKnown(st, R) THEN ~Rank(R, ord, s, st.completer) ELSE TRUE
StepStayersOnce(st, R, ord, stat, t) ==
    \A s \in Stayers(st, R) : Eligible(R[IdOf(s)], t) =>
        \/ s \in Range(st.ran)
        \/ (stat = "COMPLETE" /\ CutShort(st, R, ord, s))           \* cut short by completion
StepStayersOrder(st, R, ord) ==
    \A a, b \in Stayers(st, R) : Before(st.ran, a, b) => Rank(R, ord, a, b)
\* a timestep without mutation of the system set: exactly the eligible systems, in rank order
StepStatic(st, R, ord, stat, t) ==
    (st.removed = {} /\ st.added = {} /\ stat = "RUNNING") =>
        /\ Range(st.ran) = {o \in st.start : Eligible(R[IdOf(o)], t)}
        /\ NoDup(st.ran)
        /\ \A a, b \in Range(st.ran) : Before(st.ran, a, b) => Rank(R, ord, a, b)
StepOK(st, R, ord, stat, t) == /\ StepNoRerun(st) /\ StepStayersOnce(st, R, ord, stat, t)
                               /\ StepStayersOrder(st, R, ord) /\ StepStatic(st, R, ord, stat, t)

Runs == step.active /\ step'.active /\ Len(step'.ran) = Len(step.ran) + 1
RunOK(st, R, stat, t, o) ==      \* o may run now: registered as that very object, in its window, not yet run
    /\ stat = "RUNNING"
    /\ IdOf(o) \in DOMAIN R /\ R[IdOf(o)].obj = o
    /\ Eligible(R[IdOf(o)], t)
    /\ o \notin Range(st.ran)

C01_C02_C05_Step  == [][EndStep => StepOK(step, reg, regOrder, status, clock)]_vars
C05_RunOK         == [][Runs => RunOK(step, reg, status, clock, step'.ran[Len(step'.ran)])]_vars
C02_PlusOne       == [][EndStep => clock' = clock + 1]_vars
C02_ClockOnlyAtEnd== [][~EndStep => clock' = clock]_vars
C06_Final         == [][status = "COMPLETE" => status' = "COMPLETE"]_vars
C06_NothingRuns   == [][status = "COMPLETE" => ~Runs]_vars
C06_LaterNoop     == [][StepWhenComplete => UNCHANGED <<reg, queue, regOrder, clock, status, step>>]_vars
C01_RejectedNoop  == [][(\E o \in Objs : AddSystemRejected(o) \/ RemoveSystemRejected(IdOf(o))) => UNCHANGED vars]_vars
=============================================================================
