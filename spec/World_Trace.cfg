SPECIFICATION TraceSpec
CONSTANTS
  Models = {}
  WorldKinds = {}
  AgentObjs = {}
  Types = {"A", "B", "C", "D", "E"}
  TagVals = {}
  Serials = {}
  Coords = {}
  Deltas = {}
  Leeways = {}
  Deviations = {}
  Variants = {"mech"}
  Guests = FALSE
  TagTest = "isnone"
  BoxForm = "minmax"
INVARIANT Accepted
