SPECIFICATION TraceSpec
CONSTANTS
  Libs = {}
  Names = {}
  ReservedNames = {}
  ReservedPolicy = "reject"
INVARIANT Accepted
