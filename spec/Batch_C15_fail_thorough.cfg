\* C15 thorough: 10 tasks, 5 workers, tasks 3, 6 and 10 raise, every schedule
SPECIFICATION Spec
CONSTANTS
  Part = "pool"
  PNames = {"a", "b", "c"}
  Shapes = {"scalar5", "float35", "none", "str_xy", "str_empty", "empty", "list1", "list11", "list12", "list321", "tuple34", "range2", "range0", "np78", "strs"}
  MaxDecl = 3
  NTasks = 10
  Workers = {"w1", "w2", "w3", "w4", "w5"}
  FailTasks = {3, 6, 10}
  NCombos = 3
  NReps = 2
  ScoreVals <- SV0
  Sentinel = 1
  BestInit = "first"
  ErrorPolicy = "raise"
INVARIANT C15_ExactlyOnce
INVARIANT C15_NoDup
INVARIANT C15_SerialOrder
INVARIANT C15_ErrorSurfaces
INVARIANT C15_NoErrorInvented
