\* negative control (defect D3): id formula with raw extents
SPECIFICATION Spec
CONSTANTS
  MaxExt = 3
  MaxRadius = 0
  Names = {}
  Offsets = {}
  IdFormula = "raw"
  BoundsTest = "layered"
  ManhTest = "lt"
INVARIANT C09_Injective
INVARIANT C09_Range
INVARIANT C09_Inverse
INVARIANT C09_Bounds
