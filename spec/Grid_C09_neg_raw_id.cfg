\* negative control (defect D3): id formula with raw extents
SPECIFICATION Spec
CONSTANTS
  MaxExt = 3
  MaxRadius = 0
  Names = {}
  Offsets = {}
  IdFormula = "raw"
  BoundsTest = "layered"
  ManhTest = "lt"
INVARIANT C09_Injective
\* (only the property this control must refute is listed: with several violated properties TLC's workers
\*  would race for which one is reported first; the full list is checked on the right algorithm by the main cfg)
