\* C03: 2 plain models, agents x,x,y, 2 component types, sanctioned operations only: listings mirror residents
SPECIFICATION Spec
CONSTANTS
  Models <- M2
  WorldKinds <- K_plain
  AgentObjs <- Ag_xxy
  Types <- T_AB
  TagVals <- Tags0
  Serials <- Ser1
  Coords <- None_
  Deltas <- None_
  Leeways <- None_
  Deviations <- NoDev
  Variants <- Mech
  Guests = TRUE
  TagTest = "isnone"
  BoxForm = "minmax"
INVARIANT C03_Mirror
INVARIANT C03_NoDupListing
INVARIANT C04_OnePerId
INVARIANT C04_EnvAgents
INVARIANT C04_LeaveEnabled
INVARIANT C08_Contained
INVARIANT C08_PosIffResidentSpatial
INVARIANT MirrorAlways
PROPERTY C03_Isolation
