-------------------------------- MODULE Grid --------------------------------
(***************************************************************************)
(* ECAgent.Environments.DiscreteWorld / LineWorld / GridWorld: the cell     *)
(* table, the coordinate <-> id mapping, get_cell, the Moore / von Neumann  *)
(* neighbourhood loops, and cell components with their sources.             *)
(* The shape is chosen in Init, so one TLC run enumerates all shapes.       *)
(* Properties C09, C10, C11 are stated at the end.                          *)
(***************************************************************************)
EXTENDS Integers, Sequences, FiniteSets, TLC

CONSTANTS MaxExt,      \* shapes <<W, H, D>> with every extent in 0..MaxExt
          MaxRadius,   \* neighbourhood radii 0..MaxRadius
          Names,       \* cell-component names offered by Next
          Offsets,     \* the k of position-dependent sources (value = 100x + 10y + z + k)
          IdFormula,   \* "layered" = the code (after fix b3f5666) | "raw" = z*W*H + y*W + x with raw extents (negative control)
          BoundsTest,  \* "layered" = the code (after fix f474844) | "raw" = coordinate >= raw extent (negative control)
          ManhTest     \* "lt" = the code: |dx|+|dy|+|dz| < r + 1 | "le1" = <= r + 1 (negative control)

VARIABLES shape,       \* <<W, H, D>>
          cols,        \* name -> Seq(value), one value per cell in id order        (DataFrame columns other than 'pos')
          src,         \* history: name -> the source description the column was built from
          dev          \* deviations used (F4)

vars == <<shape, cols, src, dev>>

M1(e)     == IF e > 0 THEN e ELSE 1
GMax(a, b) == IF a >= b THEN a ELSE b
GMin(a, b) == IF a <= b THEN a ELSE b
GAbs(a)   == IF a >= 0 THEN a ELSE -a
Range(s)  == {s[i] : i \in 1..Len(s)}
Ext(f, k, v) == [x \in DOMAIN f \cup {k} |-> IF x = k THEN v ELSE f[x]]
Drop(f, k)   == [x \in DOMAIN f \ {k} |-> f[x]]

(***************************************************************************)
(* The cell table as DiscreteWorld builds it: x fastest, then y, then z,    *)
(* each over max(extent, 1).                                                *)
(***************************************************************************)
NCells(s)   == M1(s[1]) * M1(s[2]) * M1(s[3])
PosOfId(i, s) == <<i % M1(s[1]), (i \div M1(s[1])) % M1(s[2]), i \div (M1(s[1]) * M1(s[2]))>>
CellSeq(s)  == [k \in 1..NCells(s) |-> PosOfId(k - 1, s)]
Cells(s)    == {<<x, y, z>> : x \in 0..(M1(s[1]) - 1), y \in 0..(M1(s[2]) - 1), z \in 0..(M1(s[3]) - 1)}

\* discrete_grid_pos_to_id(x, y, width, z, height) as the world calls it
CellId(c, s) == IF IdFormula = "layered"
                THEN c[3] * M1(s[1]) * M1(s[2]) + c[2] * M1(s[1]) + c[1]
                ELSE c[3] * s[1] * s[2] + c[2] * s[1] + c[1]

\* get_cell's range test
InGridAlg(c, s) == \A ax \in 1..3 : 0 <= c[ax] /\ c[ax] < (IF BoundsTest = "layered" THEN M1(s[ax]) ELSE s[ax])
InGrid(c, s)    == c \in Cells(s)

(***************************************************************************)
(* Neighbourhoods: the code's clipped triple loop, and the metric ball.     *)
(***************************************************************************)
Lo(c, r, e) == IF e > 0 THEN GMax(0, c - r) ELSE 0
Up(c, r, e) == IF e > 0 THEN GMin(e, c + r + 1) ELSE 1          \* exclusive
\* the sequence of <<x, y, z>> visited by `for z.. for y.. for x..`
LoopSeq(c, r, s) ==
    LET xl == Lo(c[1], r, s[1])
        nx == Up(c[1], r, s[1]) - xl
        yl == Lo(c[2], r, s[2])
        ny == Up(c[2], r, s[2]) - yl
        zl == Lo(c[3], r, s[3])
        nz == Up(c[3], r, s[3]) - zl
    IN IF nx <= 0 \/ ny <= 0 \/ nz <= 0 THEN <<>>
       ELSE [k \in 1..(nx * ny * nz) |->
               <<xl + ((k - 1) % nx), yl + (((k - 1) \div nx) % ny), zl + ((k - 1) \div (nx * ny))>>]
Cheb(p, c) == GMax(GMax(GAbs(p[1] - c[1]), GAbs(p[2] - c[2])), GAbs(p[3] - c[3]))
Manh(p, c) == GAbs(p[1] - c[1]) + GAbs(p[2] - c[2]) + GAbs(p[3] - c[3])
MooreAlg(c, r, inc, s)   == SelectSeq(LoopSeq(c, r, s), LAMBDA p : inc \/ p # c)
NeumannAlg(c, r, inc, s) == SelectSeq(LoopSeq(c, r, s),
                               LAMBDA p : (IF ManhTest = "lt" THEN Manh(p, c) < r + 1 ELSE Manh(p, c) <= r + 1)
                                          /\ (inc \/ p # c))
\* what C10 demands: the in-grid cells within distance r, ascending cell order
Ball(kind, c, r, inc, s) ==
    SelectSeq(CellSeq(s), LAMBDA p : (IF kind = "moore" THEN Cheb(p, c) ELSE Manh(p, c)) <= r /\ (inc \/ p # c))
IdsOf(q, s) == [i \in 1..Len(q) |-> CellId(q[i], s)]

(***************************************************************************)
(* Cell components.  A source description d:                                *)
(*   [kind |-> "callable", k]   value for cell p = 100x + 10y + z + k       *)
(*   [kind |-> "constant", k]   value = k                                   *)
(*   [kind |-> "list", vals]    the i-th element for the cell with id i     *)
(*   [kind |-> "lookup", k]     table of the world's dimensionality,        *)
(*                              entry at the cell's coordinates             *)
(***************************************************************************)
PosValue(p, k) == 100 * p[1] + 10 * p[2] + p[3] + k
SourceColumn(d, s) ==
    CASE d.kind = "callable" -> [i \in 1..NCells(s) |-> PosValue(PosOfId(i - 1, s), d.k)]
      [] d.kind = "lookup"   -> [i \in 1..NCells(s) |-> PosValue(PosOfId(i - 1, s), d.k)]
      [] d.kind = "constant" -> [i \in 1..NCells(s) |-> d.k]
      [] d.kind = "list"     -> d.vals
      \* d.kind = "halve": see AddHalved

AddCellComponent(n, d) ==
    /\ (d.kind = "list" => Len(d.vals) = NCells(shape))
    /\ cols' = Ext(cols, n, SourceColumn(d, shape))
    /\ src' = Ext(src, n, d)
    /\ UNCHANGED <<shape, dev>>

\* re-adding a component with a generator that reads the component's own current values: every cell gets half its old value
AddHalved(n) ==
    /\ n \in DOMAIN cols
    /\ cols' = [cols EXCEPT ![n] = [i \in 1..Len(@) |-> @[i] \div 2]]
    /\ UNCHANGED <<shape, src, dev>>

\* finding F4: the bundled LookupGenerator is always called with 3-tuples, so a table of the world's
\* dimensionality (1 for a line, 2 for a 2-D grid) raises; nothing changes
AddLookup_F4(n, d) ==
    /\ d.kind = "lookup"
    /\ dev' = dev \cup {"F4"}
    /\ UNCHANGED <<shape, cols, src>>

MutateCallerSource(n) ==          \* the caller changes its own list / array afterwards
    /\ n \in DOMAIN cols
    /\ UNCHANGED vars

RemoveCellComponent(n) ==
    /\ n \in DOMAIN cols
    /\ cols' = Drop(cols, n) /\ src' = Drop(src, n)
    /\ UNCHANGED <<shape, dev>>

RemoveRejected(n) ==              \* ComponentNotFoundError
    /\ n \notin DOMAIN cols
    /\ UNCHANGED vars

Shapes == {<<w, h, d>> : w \in 0..MaxExt, h \in 0..MaxExt, d \in 0..MaxExt}
Init == shape \in Shapes /\ cols = << >> /\ src = << >> /\ dev = {}

SrcMenu == {[kind |-> "callable", k |-> k, vals |-> <<>>] : k \in Offsets}
           \cup {[kind |-> "constant", k |-> k, vals |-> <<>>] : k \in Offsets}
           \cup {[kind |-> "lookup", k |-> k, vals |-> <<>>] : k \in Offsets}
           \cup {[kind |-> "list", k |-> 0, vals |-> [i \in 1..NCells(shape) |-> 7 * i + k]] : k \in Offsets}

MkSrc(kind, k) == IF kind = "list" THEN [kind |-> "list", k |-> 0, vals |-> [i \in 1..NCells(shape) |-> 7 * i + k]]
                  ELSE [kind |-> kind, k |-> k, vals |-> <<>>]
AddSrc(n, kind, k) == LET d == MkSrc(kind, k) IN        \* = AddCellComponent(n, d), spelled out so that TLC labels
                      /\ cols' = Ext(cols, n, SourceColumn(d, shape))   \*   the graph edge with (n, kind, k)
                      /\ src' = Ext(src, n, d)
                      /\ UNCHANGED <<shape, dev>>
SrcKinds == {"callable", "constant", "lookup", "list"}

Next == \/ \E n \in Names, kind \in SrcKinds, k \in Offsets : AddSrc(n, kind, k)
        \/ \E n \in Names : MutateCallerSource(n)
        \/ \E n \in Names : RemoveCellComponent(n)
        \/ \E n \in Names : RemoveRejected(n)

Spec == Init /\ [][Next]_vars

-----------------------------------------------------------------------------
Probe(s) == {<<x, y, z>> : x \in -1..M1(s[1]), y \in -1..M1(s[2]), z \in -1..M1(s[3])}

C09_Injective == \A a, b \in Cells(shape) : CellId(a, shape) = CellId(b, shape) => a = b
C09_Range     == \A a \in Cells(shape) : CellId(a, shape) \in 0..(NCells(shape) - 1)
C09_Inverse   == /\ \A a \in Cells(shape) : CellSeq(shape)[CellId(a, shape) + 1] = a
                 /\ Range(CellSeq(shape)) = Cells(shape) /\ Len(CellSeq(shape)) = Cardinality(Cells(shape))
C09_Bounds    == \A c \in Probe(shape) : InGridAlg(c, shape) <=> InGrid(c, shape)

Radii == 0..MaxRadius
C10_Moore     == \A c \in Cells(shape), r \in Radii, inc \in BOOLEAN :
                    MooreAlg(c, r, inc, shape) = Ball("moore", c, r, inc, shape)
C10_Neumann   == \A c \in Cells(shape), r \in Radii, inc \in BOOLEAN :
                    NeumannAlg(c, r, inc, shape) = Ball("neumann", c, r, inc, shape)
C10_IdForm    == \A c \in Cells(shape), r \in Radii :
                    LET q == Ball("moore", c, r, TRUE, shape) IN
                    /\ \A i \in 1..Len(q) : CellSeq(shape)[IdsOf(q, shape)[i] + 1] = q[i]
                    /\ \A i, j \in 1..Len(q) : i < j => IdsOf(q, shape)[i] < IdsOf(q, shape)[j]
C10_Symmetry  == \A a, b \in Cells(shape), r \in Radii :
                    /\ (a \in Range(Ball("moore", b, r, FALSE, shape)) <=> b \in Range(Ball("moore", a, r, FALSE, shape)))
                    /\ Range(Ball("neumann", a, r, TRUE, shape)) \subseteq Range(Ball("moore", a, r, TRUE, shape))

C11_Values    == \A n \in DOMAIN cols : /\ Len(cols[n]) = NCells(shape)
                                        /\ cols[n] = SourceColumn(src[n], shape)
C11_PerCell   == \A n \in DOMAIN cols : \A a \in Cells(shape) :
                    LET v == cols[n][CellId(a, shape) + 1] IN
                    CASE src[n].kind \in {"callable", "lookup"} -> v = PosValue(a, src[n].k)
                      [] src[n].kind = "constant" -> v = src[n].k
                      [] src[n].kind = "list" -> v = src[n].vals[CellId(a, shape) + 1]
C11_Independent == [][\A n \in Names :
                        (\E kind \in SrcKinds, k \in Offsets : AddSrc(n, kind, k)) \/ RemoveCellComponent(n) \/ MutateCallerSource(n)
                           => \A k \in DOMAIN cols \ {n} : k \in DOMAIN cols' /\ cols'[k] = cols[k]]_vars
=============================================================================
