SPECIFICATION TraceSpec
CONSTANTS
  Ids = {}
  MaxVal = 2
  ACollectors = {}
  FCollectors = {}
  MaxClock = 0
  TwoOps = FALSE
  FlushTest = "lt"
INVARIANT Accepted
