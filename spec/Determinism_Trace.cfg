SPECIFICATION TraceSpec
INVARIANT Accepted
