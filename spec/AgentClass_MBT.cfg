\* spec -> code graph
SPECIFICATION Spec
CONSTANTS
  Classes = {"Agent", "A", "A1"}
  Types = {"P"}
  TagVals = {1, 2}
  MaxInst = 1
  TagDefault = "own"
