--------------------------- MODULE Scheduler_Suite ---------------------------
(***************************************************************************)
(* Transition-wise validation of scheduler operations recorded by the       *)
(* env-guarded tracer (ECAgent/_verif.py) while the repository's own tests  *)
(* run.  Each recorded operation carries the projected state before and     *)
(* after the call; the pre-state is loaded into Scheduler's variables, the  *)
(* operation must be a Scheduler step leading to the logged post-state.     *)
(* Unit tests poke private fields; a transition whose pre-state is not a    *)
(* well-formed Scheduler state (or whose systems change the system set      *)
(* while running) is skipped, never judged.                                 *)
(***************************************************************************)
EXTENDS Scheduler, Json, IOUtils, TLCExt

Traces == JsonDeserialize(IOEnv.TRACE_FILE).traces
VARIABLES tid, l, dev
tvars == <<vars, tid, l, dev>>
T == Traces[tid][1]

QObj(e)   == <<e[1], e[2]>>                       \* queue entry [id, serial, prio, start, end, freq]
QueueOf(s) == [i \in 1..Len(s.queue) |-> QObj(s.queue[i])]
RegOf(s)  == [i \in {s.queue[k][1] : k \in 1..Len(s.queue)} |->
                LET e == CHOOSE e \in Range(s.queue) : e[1] = i IN
                [obj |-> QObj(e), prio |-> e[3], start |-> e[4], end |-> e[5], freq |-> e[6], sc |-> NopScript]]
WellFormed(s) ==
    /\ \A i, j \in 1..Len(s.queue) : i # j => s.queue[i][1] # s.queue[j][1]
    /\ {<<s.reg[i][1], s.reg[i][2]>> : i \in 1..Len(s.reg)} = {QObj(s.queue[i]) : i \in 1..Len(s.queue)}
    /\ Len(s.reg) = Len(s.queue)
    /\ \A i \in 1..Len(s.queue) : s.queue[i][6] >= 1
    /\ \A i, j \in 1..Len(s.queue) : i < j => s.queue[i][3] >= s.queue[j][3]
Usable(t) == ~t.unsupported /\ WellFormed(t.pre)

PostOK(p) == /\ queue' = QueueOf(p) /\ clock' = p.clock /\ status' = p.status
             /\ {<<p.reg[i][1], p.reg[i][2]>> : i \in 1..Len(p.reg)} = {reg'[i].obj : i \in DOMAIN reg'}
             /\ Len(p.reg) = Cardinality(DOMAIN reg')

SuiteInit ==
    /\ tid \in 1..Len(Traces)
    /\ pending = 0 /\ step = Idle
    /\ IF Usable(T)
       THEN /\ reg = RegOf(T.pre) /\ queue = QueueOf(T.pre) /\ regOrder = QueueOf(T.pre)
            /\ clock = T.pre.clock /\ status = T.pre.status /\ l = 1 /\ dev = {}
       ELSE /\ reg = << >> /\ queue = <<>> /\ regOrder = <<>> /\ clock = 0 /\ status = "RUNNING"
            /\ l = 2 /\ dev = {"skipped"}

SxAdd == /\ T.op = "add_system"
         /\ LET a == T.args  o == <<a.id, a.obj>> IN
            \/ T.out = "ok" /\ AddSystem(o, a.prio, [start |-> a.start, end |-> a.end, freq |-> a.freq], NopScript)
            \/ T.out = "KeyError" /\ AddSystemRejected(o)
         /\ PostOK(T.post) /\ UNCHANGED dev
SxRemove == /\ T.op = "remove_system"
            /\ \/ T.out = "ok" /\ RemoveSystem(T.args.id)
               \/ T.out = "SystemNotFoundError" /\ RemoveSystemRejected(T.args.id)
            /\ PostOK(T.post) /\ UNCHANGED dev
SxComplete == T.op = "complete" /\ T.out = "ok" /\ Complete /\ PostOK(T.post) /\ UNCHANGED dev
\* one whole timestep: Request(1); BeginStep; Visit*; EndStep, judged by Scheduler's StepOK
SxExecute ==
    /\ T.op = "execute_systems"
    /\ IF QueueOf(T.post) # queue
       THEN dev' = {"skipped"} /\ UNCHANGED vars           \* a system changed the system set: covered by C05's own traces
       ELSE /\ UNCHANGED <<reg, queue, regOrder, pending, step, dev>>
            /\ IF status = "COMPLETE"
               THEN /\ UNCHANGED <<clock, status>>
                    /\ T.out = (IF T.args.throw THEN "ModelCompleteError" ELSE "ok") /\ T.ran = <<>>
               ELSE LET st == [active |-> TRUE, snap |-> queue, idx |-> 0,
                               ran |-> [i \in 1..Len(T.ran) |-> <<T.ran[i][1], T.ran[i][2]>>],
                               start |-> Range(queue), removed |-> {}, added |-> {}, completer |-> <<>>]
                    IN /\ T.out = "ok"
                       /\ status' = T.post.status
                       /\ \A i \in 1..Len(st.ran) : RunOK([st EXCEPT !.ran = SubSeq(st.ran, 1, i - 1)], reg, "RUNNING", clock, st.ran[i])
                       /\ StepOK(st, reg, regOrder, T.post.status, clock)
                       /\ IF T.post.status = "RUNNING" THEN clock' = clock + 1 ELSE clock' \in {clock, clock + 1}
            /\ PostOK(T.post)

SuiteNext == l = 1 /\ l' = 2 /\ UNCHANGED tid /\ (SxAdd \/ SxRemove \/ SxComplete \/ SxExecute)
SuiteSpec == SuiteInit /\ [][SuiteNext]_tvars
Accepted == (l = 2) => PrintT(<<"ACCEPT", tid, dev>>)
Progress == PrintT(<<"AT", tid, l>>)
=============================================================================
