\* negative control: with deviation F1 offered the listing no longer mirrors the residents
SPECIFICATION Spec
CONSTANTS
  Models <- M2
  WorldKinds <- K_plain
  AgentObjs <- Ag_xxy
  Types <- T_AB
  TagVals <- Tags0
  Serials <- Ser1
  Coords <- None_
  Deltas <- None_
  Leeways <- None_
  Deviations <- DevF1
  Variants <- Mech
  Guests = FALSE
  TagTest = "isnone"
  BoxForm = "minmax"
CONSTRAINT Depth9
INVARIANT MirrorAlways
