\* C05: 3 ids (+ new id n, twin b2), 2 priority levels, every script at every position, 2 timesteps
SPECIFICATION Spec
CONSTANTS
  Objs <- Objs_abc
  Prios <- Prios_01
  Windows <- Only_AlwaysOn
  Scripts <- Scripts_C05_s
  MaxN = 1
  Iteration = "snapshot"
  InsertCmp = "gt"
  WindowTest = "code"
CONSTRAINT ClockAtMost1
INVARIANT C01_Registry
INVARIANT C01_Ordered
INVARIANT C02_AlgIsDecl
PROPERTY C01_C02_C05_Step
PROPERTY C05_RunOK
PROPERTY C02_PlusOne
PROPERTY C02_ClockOnlyAtEnd
PROPERTY C06_Final
PROPERTY C06_NothingRuns
PROPERTY C06_LaterNoop
PROPERTY C01_RejectedNoop
