----------------------------- MODULE World_Suite -----------------------------
(***************************************************************************)
(* Transition-wise validation of spatial operations (placement, relative    *)
(* and absolute moves, leaving) recorded by the env-guarded tracer while    *)
(* the repository's own tests run: the pre-state is loaded into World's     *)
(* variables, the operation must be a World step leading to the logged      *)
(* post-state.  Coordinates arrive in quarter units; grid worlds are        *)
(* converted to cells.  Transitions on states the specification does not    *)
(* cover (poked index offset, fractional grid coordinates, extents in       *)
(* (0,1)) are skipped, never judged.                                        *)
(***************************************************************************)
EXTENDS World, Json, IOUtils, TLCExt

Traces == JsonDeserialize(IOEnv.TRACE_FILE).traces
VARIABLES tid, l
tvars == <<vars, tid, l>>
T == Traces[tid][1]
M == "m"

IsGrid(s) == s.kind = "grid"
Div4(v)   == v \div 4
Conv(s, v) == IF IsGrid(s) THEN Div4(v) ELSE v
ConvP(s, p) == <<Conv(s, p[1]), Conv(s, p[2]), Conv(s, p[3])>>
AllQ(s, p) == IsGrid(s) => \A i \in 1..3 : p[i] % 4 = 0
ObjOf(s, ser) == LET e == CHOOSE e \in Range(s.env) : e[2] = ser IN <<e[1], e[2]>>
Known(s, ser) == \E i \in 1..Len(s.env) : s.env[i][2] = ser
Usable(t) ==
    /\ ~t.unsupported
    /\ t.pre.off = (IF IsGrid(t.pre) THEN 4 ELSE 0)
    /\ \A i \in 1..3 : t.pre.ext[i] >= 0 /\ (IsGrid(t.pre) => t.pre.ext[i] % 4 = 0) /\ (t.pre.ext[i] = 0 \/ t.pre.ext[i] >= 4)
    /\ \A i \in 1..Len(t.pre.pos) : AllQ(t.pre, t.pre.pos[i][2])
    /\ \A i \in 1..Len(t.post.pos) : AllQ(t.pre, t.post.pos[i][2])
    /\ \A i, j \in 1..Len(t.pre.env) : i # j => t.pre.env[i][1] # t.pre.env[j][1]
    /\ (t.op \in {"place", "move_to"} => AllQ(t.pre, t.args.p))
    /\ (t.op = "move" => AllQ(t.pre, t.args.d))

EnvOf(s) == [i \in 1..Len(s.env) |-> <<s.env[i][1], s.env[i][2]>>]
PosOf(s) == [a \in {ObjOf(s, s.pos[i][1]) : i \in 1..Len(s.pos)} |->
               ConvP(s, (CHOOSE e \in Range(s.pos) : ObjOf(s, e[1]) = a)[2])]
ArgObj(t) == IF t.op = "place" THEN <<t.args.id, t.args.a>>
             ELSE IF Known(t.pre, t.args.a) THEN ObjOf(t.pre, t.args.a) ELSE <<"?", t.args.a>>

SuiteInit ==
    /\ tid \in 1..Len(Traces) /\ dev = {}
    /\ IF Usable(T)
       THEN /\ world = [m \in {M} |-> [kind |-> T.pre.kind, ext |-> ConvP(T.pre, T.pre.ext), wrap |-> T.pre.wrap]]
            /\ env = [m \in {M} |-> EnvOf(T.pre)]
            /\ pool = [m \in {M} |-> EmptyPool]
            /\ pos = PosOf(T.pre)
            /\ agents = [a \in Range(EnvOf(T.pre)) \cup (IF T.op = "leave_space" THEN {} ELSE {ArgObj(T)}) |->
                            [model |-> M, tag |-> 0, comps |-> <<>>]]
            /\ l = 1
       ELSE world = << >> /\ env = << >> /\ pool = << >> /\ pos = << >> /\ agents = << >> /\ l = 3

PostOK(p) == env'[M] = EnvOf(p) /\ pos' = PosOf(p)

SxPlace == /\ T.op = "place"
           /\ \/ T.out = "ok" /\ Join(ArgObj(T), M, ConvP(T.pre, T.args.p), "mech")
              \/ T.out = "DuplicateAgentError" /\ JoinRejectedDup(ArgObj(T), M)
              \/ T.out = "Exception" /\ JoinRejectedOOB(ArgObj(T), M, ConvP(T.pre, T.args.p))
SxMove  == /\ T.op = "move"
           /\ \/ /\ T.out = "ok" /\ ArgObj(T) \in DOMAIN pos
                 /\ Move(ArgObj(T), ConvP(T.pre, T.args.d), PosOf(T.post)[ArgObj(T)])
              \/ T.out = "ComponentNotFoundError" /\ MoveRejected(ArgObj(T))
SxMoveTo == /\ T.op = "move_to"
            /\ \/ T.out = "ok" /\ MoveTo(ArgObj(T), ConvP(T.pre, T.args.p))
               \/ T.out = "IndexError" /\ ArgObj(T) \in DOMAIN pos /\ MoveToRejected(ArgObj(T), ConvP(T.pre, T.args.p))
               \/ T.out = "ComponentNotFoundError" /\ ArgObj(T) \notin DOMAIN pos /\ MoveToRejected(ArgObj(T), ConvP(T.pre, T.args.p))
SxLeave == /\ T.op = "leave_space"
           /\ \/ T.out = "ok" /\ Leave(M, T.args.id, "mech")
              \/ T.out = "AgentNotFoundError" /\ LeaveRejected(M, T.args.id)

SuiteNext == l = 1 /\ l' = 2 /\ UNCHANGED tid /\ (SxPlace \/ SxMove \/ SxMoveTo \/ SxLeave) /\ PostOK(T.post)
SuiteSpec == SuiteInit /\ [][SuiteNext]_tvars
Accepted == (l >= 2) => PrintT(<<"ACCEPT", tid, IF l = 3 THEN {"skipped"} ELSE {}>>)
Progress == PrintT(<<"AT", tid, l>>)
=============================================================================
