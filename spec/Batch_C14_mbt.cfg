\* spec -> code graph for C14
SPECIFICATION Spec
CONSTANTS
  Part = "params"
  PNames = {"a", "b"}
  Shapes = {"scalar5", "str_xy", "empty", "list12", "range2", "np78"}
  MaxDecl = 2
  NTasks = 4
  Workers = {"w1", "w2", "w3"}
  FailTasks = {}
  NCombos = 3
  NReps = 2
  ScoreVals <- SV0
  Sentinel = 1
  BestInit = "first"
  ErrorPolicy = "raise"
