\* negative control: flush test write_count <= last_write
SPECIFICATION Spec
CONSTANTS
  Ids <- Ids_xy
  MaxVal = 2
  ACollectors <- AC_q
  FCollectors <- FC_q
  MaxClock = 3
  TwoOps = FALSE
  FlushTest = "le"
INVARIANT C17_FlushRule
