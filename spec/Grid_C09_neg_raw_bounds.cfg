\* negative control (defect D1): range test against raw extents
SPECIFICATION Spec
CONSTANTS
  MaxExt = 3
  MaxRadius = 0
  Names = {}
  Offsets = {}
  IdFormula = "layered"
  BoundsTest = "raw"
  ManhTest = "lt"
INVARIANT C09_Bounds
