\* spec -> code graph for C04/C08: spatial worlds, error paths, moves
SPECIFICATION Spec
CONSTANTS
  Models <- M1
  WorldKinds <- K_mbt8
  AgentObjs <- Ag_xxy
  Types <- T_A
  TagVals <- Tags0
  Serials <- Ser1
  Coords <- C_mbt
  Deltas <- D_mbt
  Leeways <- None_
  Deviations <- NoDev
  Variants <- Mech
  Guests = FALSE
  TagTest = "isnone"
  BoxForm = "minmax"
CONSTRAINT Depth8
