\* C03 with the low-level listing calls (register_component / deregister_component on their own) offered as well
SPECIFICATION Spec
CONSTANTS
  Models <- M2
  WorldKinds <- K_plain
  AgentObjs <- Ag_xxy
  Types <- T_AB
  TagVals <- Tags0
  Serials <- Ser1
  Coords <- None_
  Deltas <- None_
  Leeways <- None_
  Deviations <- DevEvery
  Variants <- Mech
  Guests = FALSE
  TagTest = "isnone"
  BoxForm = "minmax"
CONSTRAINT Depth9
INVARIANT C03_Mirror
INVARIANT C03_NoDupListing
INVARIANT C04_OnePerId
INVARIANT C04_EnvAgents
INVARIANT C04_LeaveEnabled
INVARIANT C08_Contained
INVARIANT C08_PosIffResidentSpatial
PROPERTY C03_Isolation
