\* C16 thorough: scores -3..3, 3 x 2
SPECIFICATION Spec
CONSTANTS
  Part = "search"
  PNames = {"a", "b", "c"}
  Shapes = {"scalar5", "float35", "none", "str_xy", "str_empty", "empty", "list1", "list11", "list12", "list321", "tuple34", "range2", "range0", "np78", "strs"}
  MaxDecl = 3
  NTasks = 4
  Workers = {"w1", "w2", "w3"}
  FailTasks = {}
  NCombos = 3
  NReps = 2
  ScoreVals <- SV7
  Sentinel = 2
  BestInit = "first"
  ErrorPolicy = "raise"
INVARIANT C16_Best
