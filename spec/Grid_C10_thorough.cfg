\* C10 thorough: shapes 0..4 per axis, radii 0..9
SPECIFICATION Spec
CONSTANTS
  MaxExt = 4
  MaxRadius = 9
  Names = {}
  Offsets = {}
  IdFormula = "layered"
  BoundsTest = "layered"
  ManhTest = "lt"
INVARIANT C09_Injective
INVARIANT C09_Range
INVARIANT C09_Inverse
INVARIANT C09_Bounds
INVARIANT C10_Moore
INVARIANT C10_Neumann
INVARIANT C10_IdForm
INVARIANT C10_Symmetry
