\* C04: plain/continuous/grid world, agents x,x,y, every error path in every state
SPECIFICATION Spec
CONSTANTS
  Models <- M1
  WorldKinds <- K_c04
  AgentObjs <- Ag_xxy
  Types <- T_A
  TagVals <- Tags0
  Serials <- Ser1
  Coords <- C_c04
  Deltas <- None_
  Leeways <- None_
  Deviations <- NoDev
  Variants <- Mech
  Guests = FALSE
  TagTest = "isnone"
  BoxForm = "minmax"
INVARIANT C03_Mirror
INVARIANT C03_NoDupListing
INVARIANT C04_OnePerId
INVARIANT C04_EnvAgents
INVARIANT C04_LeaveEnabled
INVARIANT C08_Contained
INVARIANT C08_PosIffResidentSpatial
PROPERTY C03_Isolation
