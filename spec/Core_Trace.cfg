SPECIFICATION CoreSpec
CONSTANTS
  Objs = {}
  Prios = {}
  Windows = {}
  Scripts = {}
  MaxN = 1
  Iteration = "snapshot"
  InsertCmp = "gt"
  WindowTest = "code"
  Models = {}
  WorldKinds = {}
  AgentObjs = {}
  Types = {"A", "B", "C", "D", "E"}
  TagVals = {}
  Serials = {}
  Coords = {}
  Deltas = {}
  Leeways = {}
  Deviations = {}
  Guests = FALSE
  Variants = {"mech"}
  TagTest = "isnone"
  BoxForm = "minmax"
INVARIANT Accepted
