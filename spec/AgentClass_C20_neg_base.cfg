\* negative control (defect D6): every class gets the default tag of Agent
SPECIFICATION Spec
CONSTANTS
  Classes = {"Agent", "Environment", "A", "B", "A1"}
  Types = {"P"}
  TagVals = {0, 1}
  MaxInst = 1
  TagDefault = "base"
PROPERTY C20_Isolation
PROPERTY C20_DefaultTag
PROPERTY C20_DefaultOwn
PROPERTY C20_InstanceSep
