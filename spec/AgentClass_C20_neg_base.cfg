\* negative control (defect D6): every class gets the default tag of Agent
SPECIFICATION Spec
CONSTANTS
  Classes = {"Agent", "Environment", "A", "B", "A1"}
  Types = {"P"}
  TagVals = {0, 1}
  MaxInst = 1
  TagDefault = "base"
PROPERTY C20_DefaultOwn
\* (only the property this control must refute is listed: with several violated properties TLC's workers
\*  would race for which one is reported first; the full list is checked on the right algorithm by the main cfg)
