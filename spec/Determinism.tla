---------------------------- MODULE Determinism ----------------------------
(***************************************************************************)
(* C07 as a 2-safety property.  Two copies of the same model program with   *)
(* the same seed run interleaved with arbitrary perturbations of the        *)
(* ambient state (global generators, hash seed, other models stepping).     *)
(* The pseudo-random generator is uninterpreted: draw[seed][k] is the k-th  *)
(* value a generator seeded with `seed` produces; TLC enumerates all such   *)
(* functions over a tiny domain.  Source = "own": every framework draw      *)
(* comes from the model's own generator (the code); "global": from the      *)
(* ambient generator (negative control).                                    *)
(***************************************************************************)
EXTENDS Integers, Sequences, FiniteSets, TLC

CONSTANTS Seeds, MaxDraws, AmbientVals, Source

VARIABLES draw,      \* [Seeds -> [0..MaxDraws -> {0, 1}]]  chosen in Init, never changes
          seed,      \* the seed both copies were built with
          k,         \* copy -> draws consumed from its own generator
          kb,        \* draws consumed by the other model B (own generator, different seed)
          ambient,   \* state of the global generators / interpreter
          traj       \* copy -> Seq(observation)

vars == <<draw, seed, k, kb, ambient, traj>>
Copies == {1, 2}

Observe(c) == IF Source = "own" THEN draw[seed][k[c]]
              ELSE (draw[seed][k[c]] + ambient) % 2            \* a draw that depends on the ambient generator

StepCopy(c) ==                     \* one framework draw on behalf of copy c (get_random_agent / shuffle)
    /\ k[c] < MaxDraws
    /\ traj' = [traj EXCEPT ![c] = Append(@, Observe(c))]
    /\ k' = [k EXCEPT ![c] = @ + 1]
    /\ ambient' = IF Source = "own" THEN ambient ELSE (ambient + 1) % Cardinality(AmbientVals)
    /\ UNCHANGED <<draw, seed, kb>>
Perturb(v) ==                      \* reseed / consume random, numpy.random; new process; different hash seed
    /\ ambient' = v /\ UNCHANGED <<draw, seed, k, kb, traj>>
OtherModelStep ==                  \* another model is built / stepped in between
    /\ kb < MaxDraws /\ kb' = kb + 1
    /\ ambient' = IF Source = "own" THEN ambient ELSE (ambient + 1) % Cardinality(AmbientVals)
    /\ UNCHANGED <<draw, seed, k, traj>>

Init == /\ draw \in [Seeds -> [0..MaxDraws -> {0, 1}]]
        /\ seed \in Seeds /\ k = [c \in Copies |-> 0] /\ kb = 0 /\ ambient \in AmbientVals /\ traj = [c \in Copies |-> <<>>]
Next == \/ \E c \in Copies : StepCopy(c)
        \/ \E v \in AmbientVals : Perturb(v)
        \/ OtherModelStep
Spec == Init /\ [][Next]_vars

DMin(a, b) == IF a <= b THEN a ELSE b
C07_SameTrajectory == \A j \in 1..DMin(Len(traj[1]), Len(traj[2])) : traj[1][j] = traj[2][j]
=============================================================================
