\* the schedules replayed on real models: interleavings of copy steps, perturbations and other-model steps
SPECIFICATION Spec
CONSTANTS
  Seeds = {1}
  MaxDraws = 2
  AmbientVals = {0, 1, 2}
  Source = "own"
