SPECIFICATION TraceSpec
CONSTANTS
  Part = "trace"
  PNames = {}
  Shapes = {}
  MaxDecl = 0
  NTasks = 0
  Workers = {}
  FailTasks = {}
  NCombos = 0
  NReps = 0
  ScoreVals = {}
  Sentinel = 1
  BestInit = "first"
  ErrorPolicy = "raise"
INVARIANT Accepted
