----------------------------- MODULE Tags_Trace -----------------------------
(***************************************************************************)
(* Trace specification for Tags.  Each event is one add_tag call on one of  *)
(* the libraries of the trace, followed by the projection of EVERY library  *)
(* through its public operations (itemize, len, get_tag_name for ids -1 ..  *)
(* len+1, attribute lookup of every ordinary name used so far).             *)
(***************************************************************************)
EXTENDS Tags, Json, IOUtils, TLCExt

Traces == JsonDeserialize(IOEnv.TRACE_FILE).traces
VARIABLES tid, l, dev
tvars == <<vars, tid, l, dev>>
Ev == Traces[tid][l]

LibObsOK(o, T2) ==
    LET lib == o.lib
        t   == T2[lib] IN
    /\ o.len = Len(t)
    /\ o.itemize = [i \in 1..Len(t) |-> <<t[i], i - 1>>]
    /\ \A k \in 1..Len(o.by_id) :
          LET i == o.by_id[k][1]  r == o.by_id[k][2] IN
          IF 0 <= i /\ i < Len(t) THEN r = t[i + 1] ELSE r = "!TagNotFoundError"
    /\ \A k \in 1..Len(o.by_name) :
          LET n == o.by_name[k][1]  r == o.by_name[k][2] IN
          IF n \in Range(t) THEN r = <<"id", (CHOOSE i \in 1..Len(t) : t[i] = n) - 1>>
          ELSE IF o.global THEN r = <<"err", "TagNotFoundError">>
          ELSE r \in {<<"err", "AttributeError">>, <<"err", "TagNotFoundError">>}

\* A "cold" trace observes a library only from its first add_tag on (the driver calls nothing else on it before): the
\* observed libraries are then a subset of the existing ones; otherwise every library is observed after every event.
ObsOK(obs, T2, cold) == /\ IF cold THEN {obs[i].lib : i \in 1..Len(obs)} \subseteq DOMAIN T2
                                   ELSE {obs[i].lib : i \in 1..Len(obs)} = DOMAIN T2
                        /\ \A i \in 1..Len(obs) : LibObsOK(obs[i], T2)

TrNewLib == /\ Ev.op = "new_lib"
            /\ Ev.lib \notin DOMAIN tags
            /\ tags' = [x \in DOMAIN tags \cup {Ev.lib} |-> IF x = Ev.lib THEN <<"NONE">> ELSE tags[x]]
            /\ UNCHANGED broken

TrAdd == /\ Ev.op = "add_tag" /\ Ev.lib \in DOMAIN tags
         /\ \/ Ev.out = "ok" /\ Add(Ev.lib, Ev.name)        \* also for a reserved name, if everything still works
            \/ /\ Ev.out = "DuplicateTagError" /\ (IsTag(Ev.lib, Ev.name) \/ Ev.reserved)
               /\ AddRejected(Ev.lib, Ev.name)

TraceInit == tags = << >> /\ broken = {} /\ tid \in 1..Len(Traces) /\ l = 1 /\ dev = {}
TraceNext == /\ l <= Len(Traces[tid]) /\ l' = l + 1 /\ UNCHANGED <<tid, dev>>
             /\ (TrNewLib \/ TrAdd)
             /\ ObsOK(Ev.obs, tags', Ev.cold)
TraceSpec == TraceInit /\ [][TraceNext]_tvars

Accepted == (l = Len(Traces[tid]) + 1) => PrintT(<<"ACCEPT", tid, dev>>)
Progress == PrintT(<<"AT", tid, l, ToString(tags)>>)
=============================================================================
