\* negative control: Manhattan test <= r + 1
SPECIFICATION Spec
CONSTANTS
  MaxExt = 3
  MaxRadius = 3
  Names = {}
  Offsets = {}
  IdFormula = "layered"
  BoundsTest = "layered"
  ManhTest = "le1"
INVARIANT C10_Neumann
