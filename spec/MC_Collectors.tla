--------------------------- MODULE MC_Collectors ---------------------------
EXTENDS Collectors
Forever == 999999
AC(s, e, f, fk, cp, inc) == [start |-> s, end |-> e, freq |-> f, fkind |-> fk, comp |-> cp, incl |-> inc]
FC(s, e, f, wc, plan) == [start |-> s, end |-> e, freq |-> f, wc |-> wc, plan |-> plan]
AC_q == [c1 |-> AC(0, Forever, 1, "value", "nofunc", FALSE), c2 |-> AC(1, 3, 2, "odd_none", "total", FALSE),
         c3 |-> AC(0, Forever, 2, "none", "ret_none", TRUE)]
FC_q == [f0 |-> FC(0, Forever, 1, 0, <<1>>), f1 |-> FC(0, Forever, 1, 1, <<0, 0, 2, 1>>), f2 |-> FC(1, Forever, 2, 2, <<0, 1>>)]
AC_t == AC_q @@ [c4 |-> AC(2, 2, 1, "const7", "empty", TRUE), c5 |-> AC(0, Forever, 3, "odd_none", "nofunc", TRUE)]
FC_t == FC_q @@ [f3 |-> FC(0, 4, 1, 3, <<1, 0>>), f4 |-> FC(0, Forever, 1, 1, <<0>>)]
AC_mbt == [c1 |-> AC(0, Forever, 1, "odd_none", "total", FALSE), c2 |-> AC(1, 2, 1, "value", "nofunc", TRUE)]
FC_mbt == [f1 |-> FC(0, Forever, 1, 1, <<0, 1>>)]
Ids_xy == {"x", "y"}
=============================================================================
