----------------------------- MODULE AgentClass -----------------------------
(***************************************************************************)
(* ECAgent.Core._MetaAgent / Agent: class components and the default tag    *)
(* belong to exactly one agent class of the hierarchy                       *)
(*      Agent <- Environment,  Agent <- A <- A1,  Agent <- B                *)
(* Instances get the default tag of their own class unless a tag is given.  *)
(* Property C20 is stated at the end.                                       *)
(***************************************************************************)
EXTENDS Integers, Sequences, FiniteSets, TLC

CONSTANTS Classes,      \* class names offered by Next
          Types,        \* component types
          TagVals,      \* tag values offered by Next
          MaxInst,      \* instances created by Next
          TagDefault    \* "own" = the code (after fix 7dcc14b) | "base" = Agent's default for everybody (negative control)

VARIABLES ccomps,       \* class -> Seq(<<T, serial>>) class components in attachment order
          ctag,         \* class -> default tag
          inst          \* Seq([cls, tag, comps]) instances in creation order; comps = Seq(<<T, serial>>)

vars == <<ccomps, ctag, inst>>

HasT(cs, T)  == \E i \in 1..Len(cs) : cs[i][1] = T
WithoutT(cs, T) == SelectSeq(cs, LAMBDA c : c[1] # T)

AttachClass(c, T, s) == /\ ~HasT(ccomps[c], T)
                        /\ ccomps' = [ccomps EXCEPT ![c] = Append(@, <<T, s>>)]
                        /\ UNCHANGED <<ctag, inst>>
AttachClassRejected(c, T) == HasT(ccomps[c], T) /\ UNCHANGED vars           \* ValueError
DetachClass(c, T) == /\ HasT(ccomps[c], T)
                     /\ ccomps' = [ccomps EXCEPT ![c] = WithoutT(@, T)]
                     /\ UNCHANGED <<ctag, inst>>
DetachClassRejected(c, T) == ~HasT(ccomps[c], T) /\ UNCHANGED vars          \* ComponentNotFoundError
SetTag(c, t) == ctag' = [ctag EXCEPT ![c] = t] /\ UNCHANGED <<ccomps, inst>>
DefaultFor(c) == IF TagDefault = "own" THEN ctag[c] ELSE ctag["Agent"]
New(c, explicit, t) == /\ inst' = Append(inst, [cls |-> c, tag |-> IF explicit THEN t ELSE DefaultFor(c), comps |-> <<>>])
                       /\ UNCHANGED <<ccomps, ctag>>
AttachInst(i, T, s) == /\ i \in 1..Len(inst) /\ ~HasT(inst[i].comps, T)
                       /\ inst' = [inst EXCEPT ![i].comps = Append(@, <<T, s>>)]
                       /\ UNCHANGED <<ccomps, ctag>>
DetachInst(i, T) == /\ i \in 1..Len(inst) /\ HasT(inst[i].comps, T)
                    /\ inst' = [inst EXCEPT ![i].comps = WithoutT(@, T)]
                    /\ UNCHANGED <<ccomps, ctag>>

Init == ccomps = [c \in Classes |-> <<>>] /\ ctag = [c \in Classes |-> 0] /\ inst = <<>>

OfferNew(c, explicit, t) == Len(inst) < MaxInst /\ (c = "Environment" => ~explicit) /\ New(c, explicit, t)

Next == \/ \E c \in Classes, T \in Types : AttachClass(c, T, 1)
        \/ \E c \in Classes, T \in Types : AttachClassRejected(c, T)
        \/ \E c \in Classes, T \in Types : DetachClass(c, T)
        \/ \E c \in Classes, T \in Types : DetachClassRejected(c, T)
        \/ \E c \in Classes, t \in TagVals : SetTag(c, t)
        \/ \E c \in Classes, explicit \in BOOLEAN, t \in TagVals : OfferNew(c, explicit, t)
        \/ \E i \in 1..MaxInst, T \in Types : AttachInst(i, T, 2)
        \/ \E i \in 1..MaxInst, T \in Types : DetachInst(i, T)

Spec == Init /\ [][Next]_vars

\* an action changes the class-level state of at most one class
C20_Isolation  == [][\A c \in Classes : (ccomps'[c] # ccomps[c] \/ ctag'[c] # ctag[c]) =>
                        \A d \in Classes \ {c} : ccomps'[d] = ccomps[d] /\ ctag'[d] = ctag[d]]_vars
\* a new instance without explicit tag gets the default of ITS class, an explicit tag wins
C20_DefaultTag == [][Len(inst') = Len(inst) + 1 =>
                        LET n == inst'[Len(inst')] IN
                        \/ n.tag = ctag[n.cls]
                        \/ \E t \in TagVals : New(n.cls, TRUE, t)]_vars
C20_DefaultOwn == [][\A c \in Classes : New(c, FALSE, 0) => inst'[Len(inst')].tag = ctag[c]]_vars
\* class-level operations never touch instances, instance-level operations never touch classes
C20_InstanceSep == [][(ccomps' # ccomps \/ ctag' # ctag) => inst' = inst]_vars
=============================================================================
