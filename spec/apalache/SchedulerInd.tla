---------------------------- MODULE SchedulerInd ----------------------------
(***************************************************************************)
(* An inductive-invariant check with Apalache for the registry part of      *)
(* Scheduler.tla: the insertion algorithm of add_system (insert before the  *)
(* first strictly lower priority, else append) and remove_system preserve   *)
(*   "the queue is ordered by descending priority, ties in registration     *)
(*    order, one entry per id"                                              *)
(* for ARBITRARY INTEGER priorities and every queue of up to MaxLen         *)
(* systems (Gen(MaxLen)); TLC checks the same for 3-5 priority levels.      *)
(*   IndInit => Inv   (length 0)      Inv /\ Next => Inv'   (length 1)      *)
(* A statement about the specification; the binding to the code is the      *)
(* trace validation of C01.                                                 *)
(***************************************************************************)
EXTENDS Integers, Sequences, Apalache

Ids == {"a", "b", "c", "d", "e", "f", "g"}
MaxLen == 6

VARIABLES
    \* @type: Seq({id: Str, prio: Int});
    queue,
    \* @type: Seq(Str);
    regOrder

\* @type: (Seq(Str), Str, Str) => Bool;
Before(s, x, y) == \E i, j \in DOMAIN s : i < j /\ s[i] = x /\ s[j] = y

QIds == {queue[i].id : i \in DOMAIN queue}

Inv ==
    /\ Len(queue) <= MaxLen /\ Len(regOrder) = Len(queue)
    /\ \A i, j \in DOMAIN queue : i # j => queue[i].id # queue[j].id
    /\ \A i, j \in DOMAIN regOrder : i # j => regOrder[i] # regOrder[j]
    /\ {regOrder[i] : i \in DOMAIN regOrder} = QIds
    /\ QIds \subseteq Ids
    /\ \A i, j \in DOMAIN queue : i < j =>
          \/ queue[i].prio > queue[j].prio
          \/ (queue[i].prio = queue[j].prio /\ Before(regOrder, queue[i].id, queue[j].id))

IndInit == queue = Gen(MaxLen) /\ regOrder = Gen(MaxLen) /\ Inv

\* the code's insertion: before the first entry with strictly lower priority, else at the end
Add(id, p) ==
    /\ id \notin QIds /\ Len(queue) < MaxLen
    /\ \E k \in 1..(MaxLen + 1) :
          /\ k <= Len(queue) + 1
          /\ \A i \in DOMAIN queue : i < k => ~(p > queue[i].prio)
          /\ (k <= Len(queue) => p > queue[k].prio)
          /\ queue' = SubSeq(queue, 1, k - 1) \o <<[id |-> id, prio |-> p]>> \o SubSeq(queue, k, Len(queue))
    /\ regOrder' = Append(regOrder, id)

Remove(id) ==
    /\ id \in QIds
    /\ LET \* @type: ({id: Str, prio: Int}) => Bool;
           KeepRec(r) == r.id # id
           \* @type: (Str) => Bool;
           KeepId(x) == x # id
       IN queue' = SelectSeq(queue, KeepRec) /\ regOrder' = SelectSeq(regOrder, KeepId)

Next == \/ \E id \in Ids : \E p \in Int : Add(id, p)
        \/ \E id \in Ids : Remove(id)
=============================================================================
