----------------------------- MODULE Collectors -----------------------------
(***************************************************************************)
(* ECAgent.Collectors on top of a stepping model with a changing            *)
(* population: a population-changing system (priority 0) runs first, then   *)
(* the collectors (default priority -1) observe the state it left.          *)
(*   agent collectors: one record per scheduled timestep, holding the       *)
(*     non-None per-agent results (+ timestep, + composite data), nothing   *)
(*     when that record would be empty, earlier records never altered;      *)
(*   file collectors (append mode): file \o held = everything collected,    *)
(*     flush after every (write_count + 1)-th collection.                   *)
(* Property C17 is stated at the end.                                       *)
(***************************************************************************)
EXTENDS Integers, Sequences, FiniteSets, TLC

CONSTANTS Ids,          \* agent ids offered by Next
          MaxVal,       \* agent values 0..MaxVal (touch = +1 mod MaxVal+1)
          ACollectors,  \* c -> [start, end, freq, fkind, comp, incl]   agent collectors of the exhaustive runs
          FCollectors,  \* f -> [start, end, freq, wc, plan]            file collectors; the collection at timestep t yields
                        \*                                             plan[(t mod Len(plan)) + 1] records (possibly none)
          MaxClock,
          TwoOps,       \* Next also offers timesteps with two population operations
          FlushTest     \* "lt" = the code: write_count < last_write | "le" = negative control

VARIABLES clock,
          env,          \* Seq(id): agents in the environment, joining order
          val,          \* id -> value (for ids in env)
          records,      \* c -> Seq(record); a record is a set of <<key, value>> pairs
          fstate        \* f -> [last, held, file, groups]: held / file = Seq(record string), groups = ghost: one Seq per collection

vars == <<clock, env, val, records, fstate>>

Range(s)    == {s[i] : i \in 1..Len(s)}
Without(s, x) == SelectSeq(s, LAMBDA y : y # x)
Eligible(w, t) == w.start <= t /\ t <= w.end /\ (t - w.start) % w.freq = 0
RECURSIVE Flatten(_)
Flatten(gs) == IF gs = <<>> THEN <<>> ELSE gs[1] \o Flatten(Tail(gs))
RECURSIVE SumOver(_, _)
SumOver(S, V) == IF S = {} THEN 0 ELSE LET x == CHOOSE x \in S : TRUE IN V[x] + SumOver(S \ {x}, V)

(***************************************************************************)
(* population operations (between timesteps, or by the system of priority 0 *)
(* during one)                                                              *)
(***************************************************************************)
PopJoin(E, V, a)  == IF a \in Range(E) THEN <<E, V>> ELSE <<Append(E, a), [x \in DOMAIN V \cup {a} |-> IF x = a THEN 0 ELSE V[x]]>>
PopLeave(E, V, a) == IF a \notin Range(E) THEN <<E, V>> ELSE <<Without(E, a), [x \in DOMAIN V \ {a} |-> V[x]]>>
PopTouch(E, V, a) == IF a \notin Range(E) THEN <<E, V>> ELSE <<E, [V EXCEPT ![a] = (@ + 1) % (MaxVal + 1)]>>
PopApply(EV, op)  == CASE op[1] = "join"  -> PopJoin(EV[1], EV[2], op[2])
                       [] op[1] = "leave" -> PopLeave(EV[1], EV[2], op[2])
                       [] op[1] = "touch" -> PopTouch(EV[1], EV[2], op[2])
RECURSIVE PopApplyAll(_, _)
PopApplyAll(EV, ops) == IF ops = <<>> THEN EV ELSE PopApplyAll(PopApply(EV, ops[1]), Tail(ops))

(***************************************************************************)
(* what an agent collector records at timestep t on population (E, V)       *)
(***************************************************************************)
AgentResult(fkind, v) ==           \* <<has result, result>>
    CASE fkind = "value"    -> <<TRUE, v>>
      [] fkind = "const7"   -> <<TRUE, 7>>
      [] fkind = "odd_none" -> <<v % 2 = 0, v>>
      [] fkind = "none"     -> <<FALSE, 0>>
CompositePairs(comp, E, V) ==
    CASE comp = "nofunc"   -> {}
      [] comp = "ret_none" -> {}
      [] comp = "empty"    -> {}
      [] comp \in {"total", "total_shared"} -> {<<"total", SumOver(Range(E), V)>>, <<"n", Len(E)>>}
NewRec(c, t, E, V) ==
    (IF c.incl THEN {<<"timestep", t>>} ELSE {})
    \cup {<<a, AgentResult(c.fkind, V[a])[2]>> : a \in {b \in Range(E) : AgentResult(c.fkind, V[b])[1]}}
    \cup CompositePairs(c.comp, E, V)
CollectAgent(c, recs, t, E, V) ==
    IF Eligible(c, t) /\ NewRec(c, t, E, V) # {} THEN Append(recs, NewRec(c, t, E, V)) ELSE recs

(***************************************************************************)
(* file collector: the code's counter algorithm                             *)
(***************************************************************************)
RecName(t, j) == <<t, j>>
CollectFile(f, st, t) ==
    IF ~Eligible(f, t) THEN st
    ELSE LET new   == [j \in 1..f.plan[(t % Len(f.plan)) + 1] |-> RecName(t, j)]
             held2 == st.held \o new
             last2 == st.last + 1
             flush == IF FlushTest = "lt" THEN f.wc < last2 ELSE f.wc <= last2
         IN IF flush
            THEN [last |-> 0, held |-> <<>>, file |-> st.file \o held2, groups |-> Append(st.groups, new)]
            ELSE [last |-> last2, held |-> held2, file |-> st.file, groups |-> Append(st.groups, new)]

(***************************************************************************)
(* one timestep: population ops of the system with priority 0, then all     *)
(* collectors                                                               *)
(***************************************************************************)
StepWith(ops, AC, FC) ==
    LET EV == PopApplyAll(<<env, val>>, ops) IN
    /\ env' = EV[1] /\ val' = EV[2]
    /\ records' = [c \in DOMAIN records |-> CollectAgent(AC[c], records[c], clock, EV[1], EV[2])]
    /\ fstate' = [f \in DOMAIN fstate |-> CollectFile(FC[f], fstate[f], clock)]
    /\ clock' = clock + 1
Between(ops) ==
    LET EV == PopApplyAll(<<env, val>>, ops) IN
    /\ env' = EV[1] /\ val' = EV[2] /\ UNCHANGED <<clock, records, fstate>>

Init == /\ clock = 0 /\ env = <<>> /\ val = << >>
        /\ records = [c \in DOMAIN ACollectors |-> <<>>]
        /\ fstate = [f \in DOMAIN FCollectors |-> [last |-> 0, held |-> <<>>, file |-> <<>>, groups |-> <<>>]]

OneOp == {<<k, a>> : k \in {"join", "leave", "touch"}, a \in Ids}
Step(ops)    == clock < MaxClock /\ StepWith(ops, ACollectors, FCollectors)
Outside(ops) == Between(ops)
Next == \/ \E o \in OneOp : Step(<<o>>)
        \/ Step(<<>>)
        \/ \E o1 \in OneOp, o2 \in OneOp : TwoOps /\ Step(<<o1, o2>>)
        \/ \E o \in OneOp : Outside(<<o>>)
Spec == Init /\ [][Next]_vars

-----------------------------------------------------------------------------
IsPrefix(s, t) == Len(s) <= Len(t) /\ SubSeq(t, 1, Len(s)) = s
C17_AppendOnly  == [][\A c \in DOMAIN records : IsPrefix(records[c], records'[c]) /\ Len(records'[c]) <= Len(records[c]) + 1]_vars
C17_NoEmpty     == \A c \in DOMAIN records : \A i \in 1..Len(records[c]) : records[c][i] # {}
C17_Conservation == \A f \in DOMAIN fstate : fstate[f].file \o fstate[f].held = Flatten(fstate[f].groups)
\* declarative flush rule: after n collections the file holds exactly the first (n div (wc+1))*(wc+1) collections
C17_FlushRule   == \A f \in DOMAIN fstate :
                      LET n == Len(fstate[f].groups)
                          m == (n \div (FCollectors[f].wc + 1)) * (FCollectors[f].wc + 1)
                      IN fstate[f].file = Flatten(SubSeq(fstate[f].groups, 1, m))
C17_NoDupInFile == \A f \in DOMAIN fstate : \A i, j \in 1..Len(fstate[f].file) : i # j => fstate[f].file[i] # fstate[f].file[j]
=============================================================================
