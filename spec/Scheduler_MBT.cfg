\* spec -> code: the state graph whose edges are replayed on the real objects
SPECIFICATION Spec
CONSTANTS
  Objs <- Objs_ab
  Prios <- Prios_01
  Windows <- Win_two
  Scripts <- Scripts_MBT_small
  MaxN = 2
  Iteration = "snapshot"
  InsertCmp = "gt"
  WindowTest = "code"
CONSTRAINT ClockAtMost1
