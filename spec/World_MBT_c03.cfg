\* spec -> code graph for C03/C13: two plain models, sanctioned component operations
SPECIFICATION Spec
CONSTANTS
  Models <- M2
  WorldKinds <- K_plain
  AgentObjs <- Ag_xxy
  Types <- T_AB
  TagVals <- Tags0
  Serials <- Ser1
  Coords <- None_
  Deltas <- None_
  Leeways <- None_
  Deviations <- NoDev
  Variants <- Mech
  Guests = TRUE
  TagTest = "isnone"
  BoxForm = "minmax"
CONSTRAINT Depth9
