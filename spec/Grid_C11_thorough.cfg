\* C11 thorough: 3 names, shapes 0..3
SPECIFICATION Spec
CONSTANTS
  MaxExt = 3
  MaxRadius = 0
  Names = {"p", "q", "r"}
  Offsets = {0, 5}
  IdFormula = "layered"
  BoundsTest = "layered"
  ManhTest = "lt"
INVARIANT C11_Values
INVARIANT C11_PerCell
PROPERTY C11_Independent
