\* C18: every description with <= 3 systems and <= 2 agent groups of size 0..3 (thorough) and every subset of the six hook kinds
SPECIFICATION Spec
CONSTANTS
  MaxSystems = 3
  MaxGroups = 2
  MaxN = 3
  AgentAdd = "each"
INVARIANT C18_Order
INVARIANT C18_Prefix
INVARIANT C18_ModelArg
INVARIANT C18_Contents
