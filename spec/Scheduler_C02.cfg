\* C02: window alphabet x clocks 0..7 x registration at any clock, requests of 1..3 steps
SPECIFICATION Spec
CONSTANTS
  Objs <- Objs_ab
  Prios <- Prios_0
  Windows <- Win_C02_small
  Scripts <- Only_Nop
  MaxN = 3
  Iteration = "snapshot"
  InsertCmp = "gt"
  WindowTest = "code"
CONSTRAINT ClockAtMost7
INVARIANT C01_Registry
INVARIANT C01_Ordered
INVARIANT C02_AlgIsDecl
PROPERTY C01_C02_C05_Step
PROPERTY C05_RunOK
PROPERTY C02_PlusOne
PROPERTY C02_ClockOnlyAtEnd
PROPERTY C06_Final
PROPERTY C06_NothingRuns
PROPERTY C06_LaterNoop
PROPERTY C01_RejectedNoop
