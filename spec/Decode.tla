------------------------------- MODULE Decode -------------------------------
(***************************************************************************)
(* ECAgent.Decode.Decoder.decode: the lifecycle as a program-counter        *)
(* machine over a description                                               *)
(*    desc = [pre, post, systems: Seq([pre, post]), groups: Seq([pre, post, n])] *)
(* Every step appends one entry [e, i, k, hasmodel, nsys, nag] to the log:  *)
(* what happened, for which system / group / agent index, whether the       *)
(* callee was handed the decoded model, and how many systems / agents the   *)
(* model contained at that moment.  Property C18: the log equals the        *)
(* documented lifecycle ExpectedLog(desc).                                  *)
(***************************************************************************)
EXTENDS Integers, Sequences, FiniteSets, TLC

CONSTANTS MaxSystems, MaxGroups, MaxN,
          AgentAdd      \* "each" = the code: every agent is added as soon as it is created | "after" = negative control

VARIABLES desc, pc, log, nsys, nag
vars == <<desc, pc, log, nsys, nag>>

Entry(e, i, k, hm, ns, na) == [e |-> e, i |-> i, k |-> k, hasmodel |-> hm, nsys |-> ns, nag |-> na]
RECURSIVE SumN(_, _)
SumN(g, j) == IF j = 0 THEN 0 ELSE g[j].n + SumN(g, j - 1)        \* agents of groups 1..j

(***************************************************************************)
(* The documented lifecycle.                                               *)
(***************************************************************************)
SysLog(d, i) ==
    (IF d.systems[i].pre THEN <<Entry("pre_system", i, 0, TRUE, i - 1, 0)>> ELSE <<>>)
    \o <<Entry("system", i, 0, TRUE, i - 1, 0)>>
    \o (IF d.systems[i].post THEN <<Entry("post_system", i, 0, TRUE, i, 0)>> ELSE <<>>)
GroupLog(d, j) ==
    LET S == Len(d.systems)  before == SumN(d.groups, j - 1) IN
    (IF d.groups[j].pre THEN <<Entry("pre_agents", j, 0, TRUE, S, before)>> ELSE <<>>)
    \o [k \in 1..d.groups[j].n |-> Entry("agent", j, k - 1, TRUE, S, before + k - 1)]
    \o (IF d.groups[j].post THEN <<Entry("post_agents", j, 0, TRUE, S, before + d.groups[j].n)>> ELSE <<>>)
RECURSIVE ConcatTo(_, _, _)
ConcatTo(F(_, _), d, n) == IF n = 0 THEN <<>> ELSE ConcatTo(F, d, n - 1) \o F(d, n)
ExpectedLog(d) ==
    (IF d.pre THEN <<Entry("pre_model", 0, 0, FALSE, 0, 0)>> ELSE <<>>)
    \o <<Entry("model", 0, 0, FALSE, 0, 0)>>
    \o ConcatTo(SysLog, d, Len(d.systems))
    \o ConcatTo(GroupLog, d, Len(d.groups))
    \o (IF d.post THEN <<Entry("post_model", 0, 0, FALSE, Len(d.systems), SumN(d.groups, Len(d.groups)))>> ELSE <<>>)

(***************************************************************************)
(* The decoder as a machine: pc = <<phase, index, sub-phase, agent index>>  *)
(***************************************************************************)
Emit(e, i, k, hm) == log' = Append(log, Entry(e, i, k, hm, nsys, nag))
Goto(p) == pc' = p

AfterSystems == IF Len(desc.groups) = 0 THEN <<"post", 0, "", 0>> ELSE <<"group", 1, "pre", 0>>
AfterModel   == IF Len(desc.systems) = 0 THEN AfterSystems ELSE <<"sys", 1, "pre", 0>>
NextGroup(j) == IF j < Len(desc.groups) THEN <<"group", j + 1, "pre", 0>> ELSE <<"post", 0, "", 0>>
NextSys(i)   == IF i < Len(desc.systems) THEN <<"sys", i + 1, "pre", 0>> ELSE AfterSystems

Step ==
    LET ph == pc[1]  i == pc[2]  sub == pc[3]  k == pc[4] IN
    CASE ph = "start" ->
           /\ (IF desc.pre THEN Emit("pre_model", 0, 0, FALSE) ELSE UNCHANGED log)
           /\ Goto(<<"model", 0, "", 0>>) /\ UNCHANGED <<desc, nsys, nag>>
      [] ph = "model" ->
           /\ Emit("model", 0, 0, FALSE) /\ Goto(AfterModel) /\ UNCHANGED <<desc, nsys, nag>>
      [] ph = "sys" /\ sub = "pre" ->
           /\ (IF desc.systems[i].pre THEN Emit("pre_system", i, 0, TRUE) ELSE UNCHANGED log)
           /\ Goto(<<"sys", i, "make", 0>>) /\ UNCHANGED <<desc, nsys, nag>>
      [] ph = "sys" /\ sub = "make" ->                      \* decode the system and register it
           /\ Emit("system", i, 0, TRUE) /\ nsys' = nsys + 1
           /\ Goto(<<"sys", i, "post", 0>>) /\ UNCHANGED <<desc, nag>>
      [] ph = "sys" /\ sub = "post" ->
           /\ (IF desc.systems[i].post THEN Emit("post_system", i, 0, TRUE) ELSE UNCHANGED log)
           /\ Goto(NextSys(i)) /\ UNCHANGED <<desc, nsys, nag>>
      [] ph = "group" /\ sub = "pre" ->
           /\ (IF desc.groups[i].pre THEN Emit("pre_agents", i, 0, TRUE) ELSE UNCHANGED log)
           /\ Goto(IF desc.groups[i].n > 0 THEN <<"group", i, "make", 0>> ELSE <<"group", i, "post", 0>>)
           /\ UNCHANGED <<desc, nsys, nag>>
      [] ph = "group" /\ sub = "make" ->                    \* decode agent k and add it to the environment
           /\ Emit("agent", i, k, TRUE)
           /\ nag' = IF AgentAdd = "each" THEN nag + 1
                     ELSE IF k + 1 = desc.groups[i].n THEN nag + desc.groups[i].n ELSE nag
           /\ Goto(IF k + 1 < desc.groups[i].n THEN <<"group", i, "make", k + 1>> ELSE <<"group", i, "post", 0>>)
           /\ UNCHANGED <<desc, nsys>>
      [] ph = "group" /\ sub = "post" ->
           /\ (IF desc.groups[i].post THEN Emit("post_agents", i, 0, TRUE) ELSE UNCHANGED log)
           /\ Goto(NextGroup(i)) /\ UNCHANGED <<desc, nsys, nag>>
      [] ph = "post" ->
           /\ (IF desc.post THEN Emit("post_model", 0, 0, FALSE) ELSE UNCHANGED log)
           /\ Goto(<<"done", 0, "", 0>>) /\ UNCHANGED <<desc, nsys, nag>>

SysDescs   == [pre : BOOLEAN, post : BOOLEAN]
GroupDescs == [pre : BOOLEAN, post : BOOLEAN, n : 0..MaxN]
SeqsUpTo(S, n) == UNION {[1..m -> S] : m \in 0..n}
Descs == [pre : BOOLEAN, post : BOOLEAN, systems : SeqsUpTo(SysDescs, MaxSystems), groups : SeqsUpTo(GroupDescs, MaxGroups)]

Init == desc \in Descs /\ pc = <<"start", 0, "", 0>> /\ log = <<>> /\ nsys = 0 /\ nag = 0
Next == pc[1] # "done" /\ Step
Spec == Init /\ [][Next]_vars
\* liveness: decoding ends for every description (with the complete log, by C18_Order)
FairSpec == Spec /\ WF_vars(Next)
C18_Ends == <>(pc[1] = "done")

C18_Order    == pc[1] = "done" => log = ExpectedLog(desc)
C18_Prefix   == \A m \in 1..Len(log) : m <= Len(ExpectedLog(desc)) /\ log[m] = ExpectedLog(desc)[m]
C18_ModelArg == \A m \in 1..Len(log) : log[m].e \notin {"pre_model", "model", "post_model"} => log[m].hasmodel
C18_Contents == pc[1] = "done" => nsys = Len(desc.systems) /\ nag = SumN(desc.groups, Len(desc.groups))
=============================================================================
