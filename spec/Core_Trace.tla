----------------------------- MODULE Core_Trace -----------------------------
(***************************************************************************)
(* Composition ("the whole model"): one real Model whose scripted systems   *)
(* act on the population (agents join, leave, get components, move) while   *)
(* the scheduler steps.  The trace specification is the interleaving of     *)
(* Scheduler_Trace and World_Trace over ONE trace: every event is an event   *)
(* of exactly one of the two specifications, and must leave the other       *)
(* one's variables unchanged - so besides re-checking both specifications   *)
(* on histories where population changes happen in the middle of            *)
(* timesteps, it checks that the scheduler and the environment do not       *)
(* interfere.  Exercised by `./check C05 / C03 --tier thorough` and         *)
(* `./check drift`.                                                         *)
(***************************************************************************)
EXTENDS Integers, Sequences, FiniteSets, TLC

CONSTANTS Objs, Prios, Windows, Scripts, MaxN, Iteration, InsertCmp, WindowTest,
          Models, WorldKinds, AgentObjs, Types, TagVals, Serials, Coords, Deltas, Leeways, Deviations, Guests, Variants,
          TagTest, BoxForm

VARIABLES reg, queue, regOrder, clock, status, pending, step,      \* Scheduler
          world, agents, env, pool, pos, dev,                      \* World
          tid, l

ST == INSTANCE Scheduler_Trace
WT == INSTANCE World_Trace

svars == <<reg, queue, regOrder, clock, status, pending, step>>
wvars == <<world, agents, env, pool, pos, dev>>

SchedEvent == ST!TrAdd \/ ST!TrRemove \/ ST!TrComplete \/ ST!TrExecBegin \/ ST!TrRun \/ ST!TrExecEnd \/ ST!TrExecReject
WorldEvent == /\ (WT!TrNewModel \/ WT!TrNewAgent \/ WT!TrJoin \/ WT!TrLeave \/ WT!TrAttach \/ WT!TrDetach \/ WT!TrRegister
                  \/ WT!TrLookup \/ WT!TrMove \/ WT!TrMoveTo \/ WT!TrGetAgents \/ WT!TrShuffle)
              /\ WT!ObsOK(WT!Ev.obs, world', agents', env', pool', pos')

CoreInit == ST!Init /\ WT!Init /\ tid \in 1..Len(WT!Traces) /\ l = 1
CoreNext == /\ l <= Len(WT!Traces[tid]) /\ l' = l + 1 /\ UNCHANGED tid
            /\ \/ SchedEvent /\ UNCHANGED wvars
               \/ WorldEvent /\ UNCHANGED svars
CoreSpec == CoreInit /\ [][CoreNext]_<<svars, wvars, tid, l>>

Accepted == (l = Len(WT!Traces[tid]) + 1) => PrintT(<<"ACCEPT", tid, dev>>)
Progress == PrintT(<<"AT", tid, l, ToString([reg |-> reg, clock |-> clock, step |-> step, env |-> env, pool |-> pool, dev |-> dev])>>)
=============================================================================
