\* C10: loop algorithm = metric ball, all shapes 0..3 per axis, all centres, radii 0..7
SPECIFICATION Spec
CONSTANTS
  MaxExt = 3
  MaxRadius = 7
  Names = {}
  Offsets = {}
  IdFormula = "layered"
  BoundsTest = "layered"
  ManhTest = "lt"
INVARIANT C09_Injective
INVARIANT C09_Range
INVARIANT C09_Inverse
INVARIANT C09_Bounds
INVARIANT C10_Moore
INVARIANT C10_Neumann
INVARIANT C10_IdForm
INVARIANT C10_Symmetry
