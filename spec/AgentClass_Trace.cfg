SPECIFICATION TraceSpec
CONSTANTS
  Classes = {"Agent", "Environment", "A", "B", "A1"}
  Types = {"P", "Q"}
  TagVals = {}
  MaxInst = 0
  TagDefault = "own"
INVARIANT Accepted
