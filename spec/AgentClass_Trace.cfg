SPECIFICATION TraceSpec
CONSTANTS
  Classes = {"Agent", "Environment", "A", "B", "A1", "L"}
  Types = {"P", "Q", "R"}
  TagVals = {}
  MaxInst = 0
  TagDefault = "own"
INVARIANT Accepted
