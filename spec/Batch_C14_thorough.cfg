\* C14 thorough: every declaration history over 4 names x 15 value shapes, up to 4 declarations
SPECIFICATION Spec
CONSTANTS
  Part = "params"
  PNames = {"a", "b", "c", "d"}
  Shapes = {"scalar5", "float35", "none", "str_xy", "str_empty", "empty", "list1", "list11", "list12", "list321", "tuple34", "range2", "range0", "np78", "strs"}
  MaxDecl = 4
  NTasks = 4
  Workers = {"w1", "w2", "w3"}
  FailTasks = {}
  NCombos = 3
  NReps = 2
  ScoreVals <- SV0
  Sentinel = 1
  BestInit = "first"
  ErrorPolicy = "raise"
INVARIANT C14_AlgIsProduct
INVARIANT C14_Size
INVARIANT C14_EveryName
INVARIANT C14_Order
