----------------------------- MODULE World_Trace -----------------------------
(***************************************************************************)
(* Trace specification for World: events recorded from real ECAgent         *)
(* environments (plain, SpaceWorld, DiscreteWorld, LineWorld, GridWorld)    *)
(* must be steps of World with the logged outcome, and the projection of    *)
(* the public API logged after each call must equal the specification       *)
(* state after the step.                                                    *)
(***************************************************************************)
EXTENDS World, Json, IOUtils, TLCExt

Traces == JsonDeserialize(IOEnv.TRACE_FILE).traces

VARIABLES tid, l
tvars == <<vars, tid, l>>

Ev == Traces[tid][l]
Both == {"mech", "ideal"}
NoAgent == <<"None", 0>>

ModelObsOK(M, E2, P2) ==
    LET m == M.m IN
    /\ M.env = E2[m]
    /\ M.len = Len(E2[m])
    /\ (M.hasall => M.all = E2[m])                     \* get_agents() without filter (not asked after every call)
    /\ Range(M.by_id) = {<<IdOf(a), a>> : a \in Range(E2[m])}
    /\ \A k \in 1..Len(M.listing) :
          LET g == M.listing[k] IN
          /\ g.entries = P2[m][g.T]
          /\ IF P2[m][g.T] = <<>> THEN g.form \in {"None", "empty"} /\ g.strict = "KeyError"
                                  ELSE g.form = "list" /\ g.strict = "list"

AgentObsOK(A, AG2, PS2) ==
    /\ A.a \in DOMAIN AG2
    /\ A.tag = AG2[A.a].tag
    /\ A.comps = AG2[A.a].comps
    /\ A.haspos = (A.a \in DOMAIN PS2)
    /\ (A.a \in DOMAIN PS2 => A.pos = PS2[A.a])

ObsOK(o, W2, AG2, E2, P2, PS2) ==
    /\ {o.models[i].m : i \in 1..Len(o.models)} = DOMAIN W2
    /\ \A i \in 1..Len(o.models) : ModelObsOK(o.models[i], E2, P2)
    /\ {o.agents[i].a : i \in 1..Len(o.agents)} = DOMAIN AG2
    /\ \A i \in 1..Len(o.agents) : AgentObsOK(o.agents[i], AG2, PS2)

TrNewModel == /\ Ev.op = "new_model" /\ Ev.out = "ok"
              /\ NewModel(Ev.m, [kind |-> Ev.kind, ext |-> Ev.ext, wrap |-> Ev.wrap])
TrNewAgent == /\ Ev.op = "new_agent" /\ Ev.out = "ok"
              /\ NewAgent(Ev.a, Ev.m, Ev.tag)
TrJoin     == /\ Ev.op = "join"
              /\ \/ Ev.out = "ok" /\ \E v \in Both : Join(Ev.a, Ev.m, Ev.p, v)
                 \/ Ev.out = "DuplicateAgentError" /\ JoinRejectedDup(Ev.a, Ev.m)
                 \/ Ev.out = "Exception" /\ JoinRejectedOOB(Ev.a, Ev.m, Ev.p)
                 \/ Ev.out = "KeyError" /\ (Spatial(Ev.m) => PlaceOK(Ev.m, Ev.p)) /\ JoinHalfway(Ev.a, Ev.m)
TrLeave    == /\ Ev.op = "leave"
              /\ \/ Ev.out = "ok" /\ \E v \in Both : Leave(Ev.m, Ev.id, v) /\ ~(v = "mech" /\ LeaveIsF2(Ev.m, Ev.id))
                 \/ Ev.out = "KeyError" /\ IdTaken(Ev.m, Ev.id) /\ LeaveIsF2(Ev.m, Ev.id) /\ Leave(Ev.m, Ev.id, "mech")
                 \/ Ev.out = "AgentNotFoundError" /\ LeaveRejected(Ev.m, Ev.id)
                 \/ Ev.out = "ComponentNotFoundError" /\ LeaveZombie(Ev.m, Ev.id)
TrAttach   == /\ Ev.op = "attach"
              /\ \/ Ev.out = "ok" /\ \E v \in Both : Attach(Ev.a, Ev.T, Ev.s, Ev.reg, v)
                 \/ Ev.out = "ValueError" /\ AttachRejected(Ev.a, Ev.T)
TrDetach   == /\ Ev.op = "detach"
              /\ \/ Ev.out = "ok" /\ \E v \in Both : Detach(Ev.a, Ev.T, Ev.dereg, v)
                 \/ Ev.out = "ComponentNotFoundError" /\ DetachRejected(Ev.a, Ev.T)
                 \/ Ev.out = "KeyError" /\ Ev.dereg /\ DetachDeregRejected(Ev.a, Ev.T)
TrRegister == /\ Ev.op = "register"
              /\ \/ Ev.out = "ok" /\ \E v \in Both : RegisterManual(Ev.a, Ev.T, v)
                 \/ Ev.out = "KeyError" /\ RegisterRejected(Ev.a, Ev.T)
\* the low-level listing calls on their own (the owner need not be resident)
TrRegisterRaw == /\ Ev.op = "register_raw"
                 /\ \/ Ev.out = "ok" /\ RegisterRaw(Ev.m, Ev.a, Ev.T, Ev.s)
                    \/ Ev.out = "KeyError" /\ RegisterRawRejected(Ev.m, Ev.a, Ev.T, Ev.s)
TrDeregisterRaw == /\ Ev.op = "deregister_raw"
                   /\ \/ Ev.out = "ok" /\ DeregisterRaw(Ev.m, Ev.a, Ev.T, Ev.s)
                      \/ Ev.out = "KeyError" /\ DeregisterRawRejected(Ev.m, Ev.a, Ev.T, Ev.s)
\* model.set_environment(env) for an environment that may already be populated: nothing observable changes
TrInstall  == Ev.op = "install" /\ Ev.out = "ok" /\ UNCHANGED vars
TrLookup   == /\ Ev.op = "lookup" /\ UNCHANGED vars
              /\ IF IdTaken(Ev.m, Ev.id) THEN Ev.out = "ok" /\ Ev.res = Lookup(Ev.m, Ev.id)
                 ELSE IF Ev.strict THEN Ev.out = "AgentNotFoundError" ELSE Ev.out = "ok" /\ Ev.res = NoAgent
TrMove     == /\ Ev.op = "move"
              /\ \/ Ev.out = "ok" /\ Move(Ev.a, Ev.d, Ev.after)
                 \/ Ev.out = "ComponentNotFoundError" /\ MoveRejected(Ev.a)
TrMoveTo   == /\ Ev.op = "move_to"
              /\ \/ Ev.out = "ok" /\ MoveTo(Ev.a, Ev.p)
                 \/ Ev.out = "IndexError" /\ Ev.a \in DOMAIN pos /\ MoveToRejected(Ev.a, Ev.p)
                 \/ Ev.out = "ComponentNotFoundError" /\ Ev.a \notin DOMAIN pos /\ MoveToRejected(Ev.a, Ev.p)
TrAgentsAt == /\ Ev.op = "agents_at" /\ Ev.out = "ok"
              /\ UNCHANGED <<world, agents, env, pool, pos>>
              /\ Ev.res2 = Ev.res                  \* asked again after the caller edited the first answer: the same answer
              /\ \/ Ev.res = AgentsAtQ(Ev.m, Ev.q, Ev.l, Ev.al, world[Ev.m].wrap, Ev.qs) /\ dev' = dev
                 \/ /\ world[Ev.m].wrap /\ Ev.res # AgentsAtQ(Ev.m, Ev.q, Ev.l, Ev.al, TRUE, Ev.qs)
                    /\ Ev.res = AgentsAtQ(Ev.m, Ev.q, Ev.l, Ev.al, FALSE, Ev.qs) /\ dev' = dev \cup {"F5"}
TrGetAgents == /\ Ev.op = "get_agents" /\ Ev.out = "ok" /\ UNCHANGED vars
               /\ Ev.res = GetAgents(Ev.m, Range(Ev.tpl), Ev.hastag, Ev.tag)
TrPick     == /\ Ev.op = "pick" /\ Ev.out = "ok" /\ UNCHANGED vars
              /\ LET S == MatchSet(Ev.m, Range(Ev.tpl), Ev.hastag, Ev.tag) IN
                 Range(Ev.picks) = IF S = {} THEN {NoAgent} ELSE S
TrShuffle  == /\ Ev.op = "shuffle" /\ Ev.out = "ok" /\ UNCHANGED vars
              /\ LET S == MatchSet(Ev.m, Range(Ev.tpl), Ev.hastag, Ev.tag) IN
                 Range(Ev.res) = S /\ Len(Ev.res) = Cardinality(S)

\* a far out-of-range relative move in a NON-wrapping continuous world with arbitrary (non-dyadic) float extents and
\* positions: the specification cannot represent the coordinates, but saturation must land EXACTLY on the edge
TrMoveSat == /\ Ev.op = "move_sat" /\ Ev.out = "ok" /\ UNCHANGED vars
             /\ \A ax \in 1..3 : Ev.res[ax] = CASE Ev.dirs[ax] = 1 -> "hi" [] Ev.dirs[ax] = -1 -> "lo" [] OTHER -> "same"

\* a relative move in a WRAPPING continuous world with arbitrary float extents, positions and deltas: the landing point must be
\* exactly the float (old + delta) modulo extent (computed by the driver with the statement's own formula)
TrMoveWrap == /\ Ev.op = "move_wrap" /\ Ev.out = "ok" /\ UNCHANGED vars
              /\ \A ax \in 1..3 : Ev.res[ax] = "exact"

\* growth beyond the listed properties (exercised by `./check drift` only) ---------------------------------------------
\* get_dimensions(): the extents, cut to the dimensionality of the world class
TrDims == /\ Ev.op = "dims" /\ Ev.out = "ok" /\ UNCHANGED vars
          /\ LET e == world[Ev.m].ext IN
             Ev.res = CASE Ev.cls = "line" -> <<e[1]>> [] Ev.cls = "grid2d" -> <<e[1], e[2]>> [] OTHER -> <<e[1], e[2], e[3]>>
\* distance_sqr of two positioned agents (in squared units), symmetric; PositionComponent accessors
TrGeom == /\ Ev.op = "geom" /\ Ev.out = "ok" /\ UNCHANGED vars
          /\ Ev.a \in DOMAIN pos /\ Ev.b \in DOMAIN pos
          /\ LET p == pos[Ev.a]  q == pos[Ev.b]
                 d2 == (p[1] - q[1]) * (p[1] - q[1]) + (p[2] - q[2]) * (p[2] - q[2]) + (p[3] - q[3]) * (p[3] - q[3])
             IN /\ Ev.d2ab = d2 /\ Ev.d2ba = d2
                /\ Ev.xy = <<p[1], p[2]>> /\ Ev.xz = <<p[1], p[3]>> /\ Ev.yz = <<p[2], p[3]>> /\ Ev.xyz = p /\ Ev.getpos = p

TraceInit == /\ Init /\ tid \in 1..Len(Traces) /\ l = 1

TraceNext == /\ l <= Len(Traces[tid]) /\ l' = l + 1 /\ UNCHANGED tid
             /\ (TrNewModel \/ TrNewAgent \/ TrInstall \/ TrJoin \/ TrLeave \/ TrAttach \/ TrDetach \/ TrRegister \/ TrRegisterRaw \/ TrDeregisterRaw \/ TrLookup
                 \/ TrMove \/ TrMoveTo \/ TrMoveSat \/ TrMoveWrap \/ TrDims \/ TrGeom \/ TrAgentsAt \/ TrGetAgents \/ TrPick \/ TrShuffle)
             /\ ObsOK(Ev.obs, world', agents', env', pool', pos')

TraceSpec == TraceInit /\ [][TraceNext]_tvars

Accepted == (l = Len(Traces[tid]) + 1) => PrintT(<<"ACCEPT", tid, dev>>)
Progress == PrintT(<<"AT", tid, l, ToString([agents |-> agents, env |-> env, pool |-> pool, pos |-> pos, dev |-> dev])>>)
=============================================================================
