\* negative control: draws taken from the ambient (global) generator
SPECIFICATION Spec
CONSTANTS
  Seeds = {1, 2}
  MaxDraws = 3
  AmbientVals = {0, 1, 2}
  Source = "global"
INVARIANT C07_SameTrajectory
