\* C12: the code's min/max box equals the declarative leeway box on every reachable placement x query alphabet
SPECIFICATION Spec
CONSTANTS
  Models <- M1
  WorldKinds <- K_c12
  AgentObjs <- Ag_xy
  Types <- T_0
  TagVals <- Tags0
  Serials <- Ser1
  Coords <- C_c12q
  Deltas <- None_
  Leeways <- L_c12q
  Deviations <- NoDev
  Variants <- Mech
  Guests = FALSE
  TagTest = "isnone"
  BoxForm = "minmax"
INVARIANT C03_Mirror
INVARIANT C03_NoDupListing
INVARIANT C04_OnePerId
INVARIANT C04_EnvAgents
INVARIANT C04_LeaveEnabled
INVARIANT C08_Contained
INVARIANT C08_PosIffResidentSpatial
INVARIANT C12_AlgIsBox
INVARIANT C12_SeamContainsPlain
