\* C18: every description with <= 2 systems and <= 2 agent groups of size 0..2 and every subset of the six hook kinds
SPECIFICATION Spec
CONSTANTS
  MaxSystems = 2
  MaxGroups = 2
  MaxN = 2
  AgentAdd = "each"
INVARIANT C18_Order
INVARIANT C18_Prefix
INVARIANT C18_ModelArg
INVARIANT C18_Contents
