\* C11: add/remove/mutate-source histories over 2 names x 4 source kinds, shapes 0..2 per axis
SPECIFICATION Spec
CONSTANTS
  MaxExt = 2
  MaxRadius = 0
  Names = {"p", "q"}
  Offsets = {0, 5}
  IdFormula = "layered"
  BoundsTest = "layered"
  ManhTest = "lt"
INVARIANT C11_Values
INVARIANT C11_PerCell
PROPERTY C11_Independent
