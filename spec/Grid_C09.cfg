\* C09: all shapes 0..4 per axis (125 shapes)
SPECIFICATION Spec
CONSTANTS
  MaxExt = 4
  MaxRadius = 0
  Names = {}
  Offsets = {}
  IdFormula = "layered"
  BoundsTest = "layered"
  ManhTest = "lt"
INVARIANT C09_Injective
INVARIANT C09_Range
INVARIANT C09_Inverse
INVARIANT C09_Bounds
