---------------------------- MODULE Decode_Trace ----------------------------
(***************************************************************************)
(* Trace specification for Decode: each event is one real JsonDecoder       *)
(* .decode() of a description written to a JSON file, with the lifecycle     *)
(* log recorded by the fixture classes/hooks and the resulting model.       *)
(***************************************************************************)
EXTENDS Decode, Json, IOUtils, TLCExt

Traces == JsonDeserialize(IOEnv.TRACE_FILE).traces
VARIABLES tid, l, dev
tvars == <<vars, tid, l, dev>>
Ev == Traces[tid][l]

DescOf(o) == [pre |-> o.pre, post |-> o.post,
              systems |-> [i \in 1..Len(o.systems) |-> [pre |-> o.systems[i].pre, post |-> o.systems[i].post]],
              groups |-> [j \in 1..Len(o.groups) |-> [pre |-> o.groups[j].pre, post |-> o.groups[j].post, n |-> o.groups[j].n]]]
LogOf(o)  == [m \in 1..Len(o) |-> Entry(o[m].e, o[m].i, o[m].k, o[m].hasmodel, o[m].nsys, o[m].nag)]
RECURSIVE AgentsTo(_, _)
AgentsTo(g, j) == IF j = 0 THEN <<>> ELSE AgentsTo(g, j - 1) \o [k \in 1..g[j].n |-> <<j, k - 1>>]

\* which module's classes a description asks for: entries without "module" (nomod 2 or 3) mean the documented default `__main__`
Origin(o) == IF o.nomod \in {2, 3} THEN "main" ELSE "mod"

TrDecode ==
    /\ Ev.op = "decode" /\ Ev.out = "ok" /\ UNCHANGED vars
    /\ LET d == DescOf(Ev.desc) IN
       /\ LogOf(Ev.log) = ExpectedLog(d)
       /\ Ev.stale = 0          \* every hook call reached the function bound to its name when this description was decoded
       \* the resulting model: exactly the listed systems with their declared scheduling, exactly the listed agents
       \* (and built from the class of the module the entry names: `__main__` when it names none)
       /\ {<<Ev.final.systems[i][1], Ev.final.systems[i][2], Ev.final.systems[i][3], Ev.final.systems[i][4], Ev.final.systems[i][5],
             Ev.final.systems[i][6]>> : i \in 1..Len(Ev.final.systems)}
            = {<<Ev.desc.systems[i].id, Ev.desc.systems[i].prio, Ev.desc.systems[i].freq, Ev.desc.systems[i].start, Ev.desc.systems[i].end,
                 Origin(Ev.desc)>> : i \in 1..Len(Ev.desc.systems)}
       /\ Len(Ev.final.systems) = Len(Ev.desc.systems)
       \* timestep 0 of the decoded model: the listed systems that are in their window, by descending priority, ties in listing order
       /\ LET S  == Ev.desc.systems
              El == {i \in 1..Len(S) : S[i].start <= 0 /\ 0 <= S[i].end /\ (0 - S[i].start) % S[i].freq = 0}
              Before(a, b) == S[a].prio > S[b].prio \/ (S[a].prio = S[b].prio /\ a < b)
          IN Ev.desc.closed \/
             /\ Len(Ev.final.ran) = Cardinality(El)
             /\ \A k \in 1..Len(Ev.final.ran) : \E i \in El : S[i].id = Ev.final.ran[k]
             /\ \A k, n \in 1..Len(Ev.final.ran) : k < n =>
                   \E a, b \in El : S[a].id = Ev.final.ran[k] /\ S[b].id = Ev.final.ran[n] /\ Before(a, b)
       /\ [i \in 1..Len(Ev.final.agents) |-> <<Ev.final.agents[i][1], Ev.final.agents[i][2]>>] = AgentsTo(d.groups, Len(d.groups))
       /\ \A i \in 1..Len(Ev.final.agents) : Ev.final.agents[i][3] = Origin(Ev.desc)

TraceInit == /\ desc = [pre |-> FALSE, post |-> FALSE, systems |-> <<>>, groups |-> <<>>] /\ pc = <<"done", 0, "", 0>>
             /\ log = <<>> /\ nsys = 0 /\ nag = 0 /\ tid \in 1..Len(Traces) /\ l = 1 /\ dev = {}
TraceNext == l <= Len(Traces[tid]) /\ l' = l + 1 /\ UNCHANGED <<tid, dev>> /\ TrDecode
TraceSpec == TraceInit /\ [][TraceNext]_tvars
Accepted == (l = Len(Traces[tid]) + 1) => PrintT(<<"ACCEPT", tid, dev>>)
Progress == PrintT(<<"AT", tid, l>>)
=============================================================================
