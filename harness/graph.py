"""Reader for TLC's `-dump dot,actionlabels` state graph, and an edge cover by walks from the initial state."""
import collections
import re

from . import tlaval

_RE_EDGE = re.compile(r'^(-?\d+) -> (-?\d+) \[label="(.*)",color=')
_RE_INIT = re.compile(r'^(-?\d+) \[label=".*",style = filled\]')


def load(path):
    adj = collections.defaultdict(list)
    seen = set()
    inits = []
    with open(path, errors="replace") as f:
        for line in f:
            if " -> " in line[:48]:
                m = _RE_EDGE.match(line)
                if m:
                    u, v, lab = m.group(1), m.group(2), m.group(3)
                    key = (u, v, lab)
                    if key not in seen:
                        seen.add(key)
                        adj[u].append((lab.replace('\\"', '"').replace("\\\\", "\\"), v))
                    continue
            if line.endswith("style = filled]\n"):
                m = _RE_INIT.match(line)
                if m and m.group(1) not in inits:
                    inits.append(m.group(1))
    return inits, adj


def edge_cover(inits, adj, max_len=14, extend=True):
    """Walks (lists of edge labels) from an initial state that together traverse every edge."""
    parent = {}
    order = []
    dq = collections.deque()
    for s in inits:
        parent[s] = None
        dq.append(s)
    while dq:
        u = dq.popleft()
        order.append(u)
        for lab, v in adj.get(u, ()):
            if v not in parent:
                parent[v] = (u, lab)
                dq.append(v)
    covered = set()
    walks = []

    def path_to(u):
        labs = []
        while parent[u] is not None:
            pu, lab = parent[u]
            labs.append((pu, lab, u))
            u = pu
        labs.reverse()
        return labs

    for u in order:
        for lab, v in adj.get(u, ()):
            if (u, lab, v) in covered:
                continue
            edges = path_to(u) + [(u, lab, v)]
            cur = v
            while extend and len(edges) < max_len:
                nxt = None
                for lab2, v2 in adj.get(cur, ()):
                    if (cur, lab2, v2) not in covered and (cur, lab2, v2) not in edges:
                        nxt = (cur, lab2, v2)
                        break
                if nxt is None:
                    break
                edges.append(nxt)
                cur = nxt[2]
            covered.update(edges)
            walks.append([e[1] for e in edges])
    n_edges = sum(len(v) for v in adj.values())
    return walks, {"graph_states": len(parent), "graph_edges": n_edges, "walks": len(walks)}


def parse_walk(walk):
    return [tlaval.parse_label(lab) for lab in walk]
