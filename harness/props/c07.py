"""C07 - same seed, same trajectory - independent of global state and other models."""
import os
import shutil

from .. import tlc, graph
from ..drivers import determinism as D

MC = "Determinism.tla"
TRACE = "Determinism_Trace.tla"
TRACE_CFG = "Determinism_Trace.cfg"
LEVEL = "model_checking"


def validate(ctx, programs, source, tamper=True, isolated=False):
    ctx.replay_driver = "determinism"
    return ctx.validate(TRACE, TRACE_CFG, programs, D.run_program, source=source, expect_clean=True,
                        tamper=D.tamper if tamper else None, chunk=300,
                        isolated=("determinism", "run_program", 180) if isolated else None)


def replay(ctx, doc):
    validate(ctx, [doc["program"]], "replay", tamper=False)


def schedules(ctx, cfg):
    tmp = tlc.scratch("verif-mbt-")
    try:
        dot = os.path.join(tmp, "g.dot")
        res = tlc.run_tlc(MC, cfg, dump_dot=dot)
        inits, adj = graph.load(dot)
    finally:
        shutil.rmtree(tmp, ignore_errors=True)
    walks, st = graph.edge_cover(inits[:1], adj, max_len=12)
    ctx.extra.setdefault("spec_to_code", []).append({"cfg": cfg, **st})
    scheds = []
    seen = set()
    for w in walks:
        s = D.schedule_from_walk(graph.parse_walk(w))
        key = str(s)
        if key not in seen and any(x[0] == "A" for x in s):
            seen.add(key)
            scheds.append(s)
    return scheds


def run(ctx):
    q = ctx.quick
    rng = ctx.rng
    ctx.assumptions += ["the pseudo-random generator is uninterpreted: the first run of a (configuration, seed) defines its trajectory, every other run must equal it; "
                        "identical output across Python versions is not claimed",
                        "model code draws its own random numbers from model.random (it is 'the same model code' of the statement)",
                        "real OS scheduling / interpreter state is sampled by the listed perturbations, not enumerated"]
    ctx.model_check(MC, "Determinism_C07.cfg")
    if not q:
        ctx.model_check(MC, "Determinism_C07_thorough.cfg")      # four draws per copy: 768 000 states
    ctx.negative_control(MC, "Determinism_C07_neg_global.cfg", "C07_SameTrajectory")
    scheds = schedules(ctx, "Determinism_MBT.cfg")
    if q:
        scheds = rng.sample(scheds, min(len(scheds), 60))
    progs = []
    for k, s in enumerate(scheds):
        # each schedule of the graph is stretched: every spec step of a copy = 2 timesteps of the real model
        sched = [x for st in s for x in ([st, st] if st[0] == "A" else [st])]
        progs.append({"config": D.CONFIGS[k % len(D.CONFIGS)], "seed": rng.choice([0, 1, 7, 12345, 2 ** 31 - 1]), "schedule": sched, "where": "inline"})
    validate(ctx, progs, f"spec->code: {len(progs)} interleaving schedules from TLC's graph (copy steps, perturbations of random / numpy.random, other models stepping)")
    n = 60 if q else 600
    progs = [{"config": rng.choice(D.CONFIGS), "seed": rng.randint(0, 10 ** 6), "schedule": D.random_schedule(rng, rng.choice([4, 8])), "where": "inline"}
             for _ in range(n)]
    validate(ctx, progs, "random seeds x configurations (plain / grid / continuous, population, system mix) x random perturbation schedules")
    n = 24 if q else 120
    progs = [{"config": (D.HASHCFG[(k // 2) % len(D.HASHCFG)] if k % 2 else rng.choice(D.CONFIGS)),
              "seed": rng.choice([rng.randint(0, 10 ** 6), "run-%d" % k, 0, 2.5]),
              "schedule": D.random_schedule(rng, 5), "where": "fresh",
              "hashseed": (("1", "12345", "random", "7") if k % 2 else ("0", "1", "12345", "random"))[(k // 2) % 4]} for k in range(n)]
    validate(ctx, progs, "fresh interpreters with PYTHONHASHSEED 0 / 1 / 12345 / random vs. the reference run", isolated=True)
    n = 8 if q else 60
    progs = [{"config": rng.choice(D.DIRECT), "seed": rng.randint(0, 10 ** 6), "schedule": [["A", 1]] * (3 + k % 3), "where": "search",
              "procs": 1 + k % 2} for k in range(n)]
    validate(ctx, progs, "three repetitions of the same seed inside grid_search (1 and 2 processes) vs. the reference run: trajectory digests",
             isolated=True, tamper=False)
    progs = [{"config": rng.choice(D.DIRECT), "seed": rng.randint(0, 10 ** 6), "schedule": [["A", 1]] * (4 + k % 2), "where": "worker"}
             for k in range(n)]
    validate(ctx, progs, "execution inside batch_run worker processes (2 processes, 2 repetitions) vs. the reference run", isolated=True)
