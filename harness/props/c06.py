"""C06 - completion is immediate and final: nothing runs after complete()."""
from . import _sched
from ..drivers import scheduler as S

replay = _sched.replay


def completion_programs(n_sys, prios, later):
    """Completer at every position of the priority order and at every clock 0..2, or completion from outside;
    then every sequence in `later` of requests / registrations."""
    import itertools
    ids = [chr(ord("a") + k) for k in range(n_sys)]
    out = []
    for pr in itertools.product(prios, repeat=n_sys):
        for who in list(range(n_sys)) + [None]:
            for at in (0, 1, 2):
                for tail in later:
                    prog = []
                    for k, i in enumerate(ids):
                        win = [at, S.FOREVER, 1] if k == who else list(S.ALWAYS)
                        # serial 3 = a system bound to another, still running model (see Scripted); the completer is always the host's
                        prog.append(["add", [i, 1 if (k == who or (k + at) % 2) else 3], pr[k], win, [["complete"]] if k == who else []])
                    if who is None:
                        if at:
                            prog.append(["exec", at, "execute"])
                        prog.append(["complete"])
                    else:
                        prog.append(["exec", at + 1, "execute"] if at % 2 else ["exec", 1, "execute_systems"])
                        if not at % 2:
                            prog += [["exec", 1, "execute"]] * at
                    prog += tail
                    if len(out) % 3 == 1:
                        prog = [["logger", "quiet"]] + prog       # a model with a user logger that is not enabled for INFO
                    if len(out) % 2 == 1:
                        prog = [["shadow"]] + prog                # a second model lives beside it; the completer ends it too, afterwards
                    out.append(prog)
    return out


def tails(depth):
    import itertools
    atoms = [["exec", 1, "execute"], ["exec", 2, "execute"], ["exec", 1, "throw"], ["exec", 1, "throw1"], ["exec", 1, "execute_systems"],
             ["add", ["z", 1], 5, list(S.ALWAYS), []], ["remove", "a"], ["complete"]]
    out = [[]]
    for d in range(1, depth + 1):
        out += [list(t) for t in itertools.product(atoms, repeat=d)]
    return out


def run(ctx):
    q = ctx.quick
    ctx.assumptions += ["whether the request in which completion happens still advances the clock is left open; "
                        "every later request must leave it untouched (DESIGN 3.2)"]
    ctx.model_check(_sched.MC, "Scheduler_C06.cfg" if q else "Scheduler_C06_thorough.cfg",
                    require=_sched.ALL_ACTIONS + ("StepWhenComplete", "TopComplete"))
    _sched.spec_to_code(ctx, sample=2500 if q else None)
    if q:
        progs = completion_programs(3, (0, 1), tails(1)) + completion_programs(2, (0,), tails(3))
    else:
        progs = completion_programs(3, (0, 1, 2), tails(2)) + completion_programs(2, (0, 1), tails(4))
    _sched.validate(ctx, progs, "completer at every position/clock or from outside x every later request sequence")
    n = 600 if q else 6000
    progs = [S.random_program(ctx.rng, n_ids=4, length=30, p_mut=0.3, p_complete=0.08, windows=True) for _ in range(n)]
    _sched.validate(ctx, progs, "random histories with completion from scripts and from outside")
    if not q:
        from .. import suite
        suite.run(ctx, ["sched"])
