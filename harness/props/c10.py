"""C10 - neighbourhood queries return exactly the metric ball clipped to the grid."""
from . import _grid
from ..drivers import grid as G

replay = _grid.replay


def run(ctx):
    q = ctx.quick
    ctx.assumptions += ["worlds without wrapping (statement); radius is a non-negative integer"]
    ctx.model_check(_grid.MC, "Grid_C10.cfg" if q else "Grid_C10_thorough.cfg", timeout=3000)
    ctx.negative_control(_grid.MC, "Grid_C10_neg_manh.cfg", "C10_Neumann")
    ctx.negative_control(_grid.MC, "Grid_C10_neg_raw_id.cfg", "C10_IdForm")
    n, r = (3, 4) if q else (4, 9)
    progs = G.c10_programs(n, r)
    _grid.validate(ctx, progs, f"exhaustive: every shape 0..{n} per axis x every centre x radius 0..min({r}, diameter+2) x Moore/von Neumann x "
                               "with/without centre; each query asked with the centre as id, tuple and position component (offsets 0, .25, .75), "
                               "tuple and id return form, specific and generic entry point", chunk=150)
    ctx.exhaustive = True
    ctx.rule = ("a case is a batch of <= 40 neighbourhood queries on one real grid world, each query answered in 12 representations; the finite space "
                "(shape, centre, radius, kind, centre flag) up to the bound is enumerated completely")
