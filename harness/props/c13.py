"""C13 - agent queries are exact filters; random picks stay within the filter."""
from . import _world

replay = _world.replay
W = {"agents_at": 0, "pick": 6, "shuffle": 6, "get_agents": 12, "lookup": 0, "join": 10, "leave": 4, "move": 0, "move_to": 0,
     "attach": 10, "detach": 3, "agent": 4}


def probe(op, kinds, homes, n):
    if op[0] not in ("join", "leave", "attach", "detach"):
        return []
    m = op[1] if op[0] == "leave" else homes[tuple(op[1])]
    tpls = [[], ["A"], ["B"], ["A", "B"], ["Z"], ["B", "A"]]
    tags = [None, 0, 1]
    return [["get_agents", m, tpls[(n + k) % 6], tags[(n + 2 * k) % 3]] for k in range(2)] + \
           [["shuffle", m, tpls[n % 6], tags[n % 3]]]


def run(ctx):
    q = ctx.quick
    ctx.assumptions += ["'every matching agent is reachable': 200 fixed reseedings of the model's own generator per query; "
                        "for at most 6 candidates a uniform choice misses one with probability < 1e-15",
                        "components are not modified while resident"]
    ctx.model_check(_world.MC, "World_C13.cfg")
    ctx.negative_control(_world.MC, "World_C13_neg_truthy.cfg", "C13_AlgIsFilter")
    _world.spec_to_code(ctx, "World_MBT_c03.cfg", sample=2000 if q else None, probe=probe)
    # agents that receive components AFTER joining (with or without the register call): the filters look at the agents, not at
    # the component listings; what that does to the listings is C03's business (findings F1 F2 F3 F6 are tolerated here)
    ctx.tolerated = {"F1", "F2", "F3", "F6"}
    runs = _world.random_runs(ctx, 150 if q else 1500, kinds=("plain", "grid"), mods="any", length=60, weights=W, nseeds=200, n_ids=4,
                              tags=(None, 0, 1, 7, 1000, -7))
    _world.validate_runs(ctx, runs, "populations whose resident agents gain and lose components", expect_clean=False)
    # heavy turnover with unfiltered random picks and shuffles in between (agents leaving from the middle, the newest leaving later)
    WT = dict(W, join=12, leave=12, pick=10, shuffle=6, get_agents=4, attach=1, detach=0)
    runs = _world.random_runs(ctx, 100 if q else 1000, kinds=("plain",), mods="clean", length=80, weights=WT, nseeds=200, n_ids=6, tags=(None,))
    _world.validate_runs(ctx, runs, "populations with heavy turnover, unfiltered picks and shuffles")
    n = 300 if q else 3000
    for kinds, label in ((("plain",), "plain environment"), (("space", "grid"), "spatial worlds")):
        runs = _world.random_runs(ctx, n, kinds=kinds, mods="clean", length=60, weights=W, nseeds=200, n_ids=4,
                                  tags=(None, None, 0, 1, 7, 5, 1000, 70000, -7), late_install=True)
        _world.validate_runs(ctx, runs, f"random populations with arbitrary component sets and tags, templates of 0..3 types, tag filters, {label}")
