"""C05 - systems changing the system set mid-timestep never cause skips or reruns."""
from . import _sched
from ..drivers import scheduler as S

replay = _sched.replay


def run(ctx):
    q = ctx.quick
    ctx.assumptions += ["whether a system registered mid-timestep first runs in that timestep or the next is left open "
                        "(trace specification: RunOK + StepOK only constrain systems registered for the whole timestep)"]
    ctx.model_check(_sched.MC, "Scheduler_C05.cfg", require=_sched.ALL_ACTIONS)
    if not q:
        ctx.model_check(_sched.MC, "Scheduler_C05_thorough.cfg", require=_sched.ALL_ACTIONS)
        ctx.model_check(_sched.MC, "Scheduler_C05_thorough4.cfg", require=_sched.ALL_ACTIONS, timeout=3000)
    ctx.negative_control(_sched.MC, "Scheduler_C05_neg_live.cfg", "C01_C02_C05_Step")
    _sched.spec_to_code(ctx, sample=2000 if q else None)
    if q:
        progs = list(S.c05_programs(3, (0, 1), (0, 1, 2), steps=2))
        progs += list(S.c05_programs(4, (0, 1), (-1, 2), steps=1))
        progs += list(S.c05_programs(5, (0,), (1,), steps=1)) + list(S.c05_programs(3, (0,), (1,), steps=2, two_actors=True))
    else:
        progs = list(S.c05_programs(4, (0, 1, 2), (-1, 0, 1, 2, 3), steps=2))
        progs += list(S.c05_programs(3, (0, 1), (0, 1, 2), steps=2, two_actors=True))
    _sched.validate(ctx, progs, "scenario product: priorities x actor x script (remove each/self, add at each level, re-add, complete)")
    n = 800 if q else 8000
    progs = [S.random_program(ctx.rng, n_ids=5, length=30, p_mut=0.5, windows=False) for _ in range(n)]
    _sched.validate(ctx, progs, "random histories with mutating scripts")
    progs = [S.random_program(ctx.rng, n_ids=4, length=40, p_mut=0.4, windows=True) for _ in range(n // 2)]
    _sched.validate(ctx, progs, "random histories with mutating scripts and windows")
