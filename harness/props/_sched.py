"""Shared by C01, C02, C05, C06: Scheduler.tla / Scheduler_Trace.tla and the scheduler driver."""
import os
import shutil

from .. import tlc, graph
from ..drivers import scheduler as S

MC = "MC_Scheduler.tla"
TRACE = "Scheduler_Trace.tla"
TRACE_CFG = "Scheduler_Trace.cfg"
ALL_ACTIONS = ("TopAdd", "TopRemove", "Request", "BeginStep", "Visit", "EndStep")


def validate(ctx, programs, source, tamper=True, expect_clean=True):
    ctx.replay_driver = "scheduler"
    return ctx.validate(TRACE, TRACE_CFG, programs, S.run_program, source=source,
                        tamper=S.tamper if tamper else None, expect_clean=expect_clean)


def spec_to_code(ctx, cfg="Scheduler_MBT.cfg", sample=None, max_len=16):
    """TLC dumps the labelled state graph; every edge is replayed on the real objects."""
    tmp = tlc.scratch("verif-mbt-")
    try:
        dot = os.path.join(tmp, "g.dot")
        res = tlc.run_tlc(MC, cfg, dump_dot=dot)
        if not res.ok:
            raise tlc.MachineryError(f"MBT graph generation failed: {res.violated}")
        inits, adj = graph.load(dot)
    finally:
        shutil.rmtree(tmp, ignore_errors=True)
    walks, st = graph.edge_cover(inits, adj, max_len=max_len)
    if st["graph_states"] != res.distinct:
        raise tlc.MachineryError(f"dot graph has {st['graph_states']} states, TLC reported {res.distinct}")
    total = len(walks)
    if sample and len(walks) > sample:
        walks = ctx.rng.sample(walks, sample)
    st["walks_replayed"] = len(walks)
    st["walks_total"] = total
    ctx.extra.setdefault("spec_to_code", []).append({"cfg": cfg, **st})
    programs = [S.program_from_walk(graph.parse_walk(w)) for w in walks]
    validate(ctx, programs, f"spec->code edge cover of {cfg} ({len(walks)}/{total} walks)")


def replay(ctx, doc):
    prog = doc["program"]
    validate(ctx, [prog], "replay", tamper=False)
