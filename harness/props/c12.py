"""C12 - positional queries return exactly the agents inside the leeway box."""
from . import _world

replay = _world.replay
W = {"agents_at": 24, "pick": 0, "shuffle": 0, "get_agents": 0, "lookup": 0, "join": 10, "leave": 3, "move": 6, "move_to": 6,
     "attach": 0, "detach": 0}


def run(ctx):
    q = ctx.quick
    ctx.assumptions += ["coordinates and leeways are multiples of 1/4 in continuous worlds",
                        "the query is not made while a resident has lost its position (consequence of finding F2, C03)"]
    ctx.model_check(_world.MC, "World_C12.cfg" if q else "World_C12_thorough.cfg")
    ctx.negative_control(_world.MC, "World_C12_neg_general.cfg", "C12_AlgIsBox")
    ctx.negative_control(_world.MC, "World_C12_neg_seam.cfg", "C12_PlainIsSeam")
    n = 300 if q else 3000
    for kinds, label in ((("space",), "continuous worlds"), (("grid", "line", "grid2d"), "grid worlds")):
        runs = _world.random_runs(ctx, n, kinds=kinds, mods="clean", length=70, weights=W, n_models=2, n_ids=4)
        _world.validate_runs(ctx, runs, f"random populations (coincident agents, agents on faces, moved/removed agents) and queries, {label}",
                             expect_clean=False)
