"""C08 - agents stay inside the world; moves are exactly modular or saturating."""
from . import _world

replay = _world.replay
W = {"agents_at": 0, "pick": 0, "shuffle": 0, "get_agents": 0, "lookup": 0, "join": 8, "leave": 3, "move": 16, "move_to": 10,
     "attach": 1, "detach": 0}


def run(ctx):
    q = ctx.quick
    ctx.assumptions += ["continuous coordinates, extents and deltas are multiples of 1/4 (exact in binary floating point); "
                        "rounding of arbitrary floats is outside what integer TLA+ can judge",
                        "on an axis of extent 0 the result of a relative move is not constrained (DESIGN 3.2)"]
    ctx.model_check(_world.MC, "World_C08.cfg" if q else "World_C08_thorough.cfg")
    _world.spec_to_code(ctx, "World_MBT_c04.cfg", sample=3000 if q else 40000)
    n = 300 if q else 3000
    for kinds, label in ((("space",), "continuous worlds"), (("grid",), "generic grid worlds"), (("line", "grid2d"), "line and 2-D grid worlds")):
        runs = _world.random_runs(ctx, n, kinds=kinds, mods="clean", length=60, weights=W, n_models=1)
        _world.validate_runs(ctx, runs, f"random add/move/move_to/remove histories, non-cubic extents incl. 0, wrap on/off, {label}")
