"""C08 - agents stay inside the world; moves are exactly modular or saturating."""
from . import _world

replay = _world.replay
W = {"agents_at": 0, "pick": 0, "shuffle": 0, "get_agents": 0, "lookup": 0, "join": 8, "leave": 3, "move": 16, "move_to": 10,
     "attach": 1, "detach": 0}


def run(ctx):
    q = ctx.quick
    ctx.assumptions += ["continuous coordinates, extents and deltas are multiples of 1/4 (exact in binary floating point); "
                        "rounding of arbitrary floats is outside what integer TLA+ can judge",
                        "on an axis of extent 0 the result of a relative move is not constrained (DESIGN 3.2)"]
    ctx.model_check(_world.MC, "World_C08.cfg" if q else "World_C08_thorough.cfg")
    # the kernels for ALL integers (TLAPS); a statement about the specification only, in addition to TLC's bounded check
    import os
    from .. import tlc
    ob, pr = tlc.tlaps(os.path.join(tlc.SPEC, "proofs", "KernelProofs.tla"), os.path.join(tlc.SPEC, "World.tla"),
                       ("WMax", "WMin", "Hi", "Clamp", "WrapTo"))
    if pr != ob:
        raise tlc.MachineryError(f"TLAPS proved only {pr} of {ob} kernel obligations")
    ctx.extra["tlaps_kernel_obligations"] = {"obligations": ob, "discharged": pr, "module": "spec/proofs/KernelProofs.tla"}
    ctx.controls.append(f"TLAPS: {pr}/{ob} kernel obligations (Clamp/Wrap containment and exactness for all integers) proved")
    _world.spec_to_code(ctx, "World_MBT_c04.cfg", sample=3000 if q else 40000)
    n = 300 if q else 3000
    from .. import suite
    suite.run(ctx, ["space"])
    for kinds, label in ((("space",), "continuous worlds"), (("grid",), "generic grid worlds"), (("line", "grid2d"), "line and 2-D grid worlds")):
        runs = _world.random_runs(ctx, n, kinds=kinds, mods="clean", length=60, weights=W, n_models=1)
        _world.validate_runs(ctx, runs, f"random add/move/move_to/remove histories, non-cubic extents incl. 0, wrap on/off, {label}")
