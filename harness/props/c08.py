"""C08 - agents stay inside the world; moves are exactly modular or saturating."""
from . import _world

replay = _world.replay
W = {"agents_at": 0, "pick": 0, "shuffle": 0, "get_agents": 0, "lookup": 0, "join": 8, "leave": 3, "move": 16, "move_to": 10,
     "attach": 1, "detach": 0}


def run(ctx):
    q = ctx.quick
    ctx.assumptions += ["continuous coordinates, extents and deltas are multiples of 1/4 (exact in binary floating point); "
                        "rounding of arbitrary floats is outside what integer TLA+ can judge",
                        "on an axis of extent 0 the result of a relative move is not constrained (DESIGN 3.2)"]
    ctx.model_check(_world.MC, "World_C08.cfg" if q else "World_C08_thorough.cfg")
    # the kernels for ALL integers (TLAPS); a statement about the specification only, in addition to TLC's bounded check
    import os
    from .. import tlc
    ob, pr = tlc.tlaps(os.path.join(tlc.SPEC, "proofs", "KernelProofs.tla"), os.path.join(tlc.SPEC, "World.tla"),
                       ("WMax", "WMin", "Hi", "Clamp", "WrapTo"))
    if pr != ob:
        raise tlc.MachineryError(f"TLAPS proved only {pr} of {ob} kernel obligations")
    ctx.extra["tlaps_kernel_obligations"] = {"obligations": ob, "discharged": pr, "module": "spec/proofs/KernelProofs.tla"}
    ctx.controls.append(f"TLAPS: {pr}/{ob} kernel obligations (Clamp/Wrap containment and exactness for all integers) proved")
    _world.spec_to_code(ctx, "World_MBT_c04.cfg", sample=3000 if q else 40000)
    n = 300 if q else 3000
    from .. import suite
    suite.run(ctx, ["space"])
    # saturation lands exactly on the edge also for coordinates the integer specification cannot represent
    rng = ctx.rng
    progs = []
    for _ in range(60 if q else 600):
        ext = [rng.choice([7.3, 10.1, 5.0, 0.7 + rng.randint(1, 9), round(rng.uniform(1, 20), 3)]) for _ in range(3)]
        prog = [["model", "m1", "plain", [0, 0, 0], False]]
        for _ in range(8):
            start = [min(round(rng.uniform(0, e), rng.choice([1, 2, 5])), e) for e in ext]
            prog.append(["move_sat", ext, start, [rng.choice([-1, 0, 1]) for _ in range(3)]])
            # the same start in a wrapping world of these extents, moved by ordinary decimal amounts (several laps too)
            delta = [rng.choice([0.1, 0.2, -0.3, 1.7, -2.45, round(rng.uniform(-3 * e, 3 * e), 2)]) for e in ext]
            prog.append(["move_wrap", ext, start, delta])
        progs.append(prog)
    _world.validate_programs(ctx, progs, "far out-of-range relative moves in continuous worlds with non-dyadic float extents and positions: "
                                         "saturation must land exactly on the edge; in wrapping worlds exactly at (old + delta) modulo extent", tamper=False)
    for kinds, label in ((("space",), "continuous worlds"), (("grid",), "generic grid worlds"), (("line", "grid2d"), "line and 2-D grid worlds")):
        runs = _world.random_runs(ctx, n, kinds=kinds, mods="clean", length=60, weights=W, n_models=2)
        _world.validate_runs(ctx, runs, f"random add/move/move_to/remove histories, non-cubic extents incl. 0, wrap on/off, {label}")
