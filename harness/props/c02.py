"""C02 - a system runs exactly in its start/end/frequency window; one step = +1; execute(n) = n steps."""
from . import _sched
from ..drivers import scheduler as S

replay = _sched.replay


def window_programs(rng, n, wide):
    out = []
    for _ in range(n):
        # every fourth history: systems also let themselves go (clean_up) or remove / register others while they run, and are
        # registered again later; priorities -1..1
        mut = len(out) % 4 == 3
        out.append(S.random_program(rng, n_ids=3, prios=(-1, 0, 0, 1) if mut else (0, 0, 1), length=rng.choice([20, 40, 60]),
                                    p_mut=0.25 if mut else 0.0, windows=True, wide=wide, p_complete=0.0))
    return out


def sweep_programs(starts, ends, freqs, steps, late=(0,)):
    """One system per program, every window of the alphabet, registered at clock `late`, then `steps` steps
    requested both as single steps and as one multi-step call."""
    out = []
    for s in starts:
        for e in ends:
            for f in freqs:
                for lt in late:
                    for multi in (False, True):
                        prog = []
                        if lt:
                            prog.append(["exec", lt, "execute"])
                        prog.append(["add", ["a", 1], 0, [s, e, f], []])
                        prog.append(["add", ["b", 1], 0, [0, S.FOREVER, 1], []])
                        if multi:
                            prog.append(["exec", steps, "execute"])
                        else:
                            prog += [["exec", 1, ("execute", "execute_systems")[k % 2]] for k in range(steps)]
                        out.append(prog)
    return out


def run(ctx):
    q = ctx.quick
    ctx.assumptions += ["start/end/frequency are not changed while the system is registered",
                        "sys.maxsize ('forever') is represented as 999999 in the specification; driver clocks stay far below it",
                        "bool is not offered as n (whether True is an integer is not fixed by the statement)"]
    ctx.model_check(_sched.MC, "Scheduler_C02.cfg" if q else "Scheduler_C02_thorough.cfg", require=_sched.ALL_ACTIONS)
    ctx.negative_control(_sched.MC, "Scheduler_C02_neg_tmodf.cfg", "C02_AlgIsDecl")
    # liveness (no state constraint): every request of n steps is worked off; without fairness it need not be (negative control)
    ctx.model_check(_sched.MC, "Scheduler_Live.cfg")
    ctx.negative_control(_sched.MC, "Scheduler_Live_neg_unfair.cfg", "C02_RequestEnds")
    _sched.spec_to_code(ctx, sample=2000 if q else None)
    ends = (-3, 0, 2, 3, 6, S.FOREVER)
    if q:
        progs = sweep_programs((-2, 0, 1, 3), ends, (1, 2, 3), 8, late=(0, 2))
    else:
        progs = sweep_programs((-5, -2, -1, 0, 1, 2, 3, 7), ends + (1, 11), (1, 2, 3, 4, 5, 7), 14, late=(0, 1, 2, 5))
    _sched.validate(ctx, progs, "window sweep: every (start, end, freq) x late registration x single/multi-step")
    _sched.validate(ctx, window_programs(ctx.rng, 400 if q else 4000, wide=False), "random windows (spec alphabet), 3 ids")
    _sched.validate(ctx, window_programs(ctx.rng, 300 if q else 4000, wide=True), "random windows, starts -5..10, freq 1..5")
    if not q:
        from .. import suite
        suite.run(ctx, ["sched"])
