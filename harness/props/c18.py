"""C18 - decoding follows the documented lifecycle and builds exactly what is listed."""
import json
from ..drivers import decode as D

MC = "Decode.tla"
TRACE = "Decode_Trace.tla"
TRACE_CFG = "Decode_Trace.cfg"


def validate(ctx, programs, source, tamper=True):
    ctx.replay_driver = "decode"
    return ctx.validate(TRACE, TRACE_CFG, programs, D.run_program, source=source, expect_clean=True,
                        tamper=D.tamper if tamper else None, chunk=1500, min_events=1)


def replay(ctx, doc):
    validate(ctx, [doc["program"]], "replay", tamper=False)


def run(ctx):
    q = ctx.quick
    ctx.assumptions += ["system ids within one description are distinct (a duplicate id is C01's rejected registration)",
                        "model-level hooks are not handed the model (the statement lists system, agent, system-level and agent-level hooks)"]
    ctx.model_check(MC, "Decode_C18.cfg")
    if not q:
        ctx.model_check(MC, "Decode_C18_thorough.cfg", timeout=3000)      # <= 3 systems, groups of size 0..3: 1.75 M states
    ctx.model_check(MC, "Decode_C18_live.cfg")          # liveness: decoding ends for every description
    ctx.negative_control(MC, "Decode_C18_neg_after.cfg", ("C18_Prefix", "C18_Order"))
    descs = D.all_descs(2, 2, 2)
    # one description per call, three descriptions per trace (repeated decodes, two files alternating, one process)
    progs = [descs[i:i + 3] for i in range(0, len(descs), 3)]
    validate(ctx, progs, f"all descriptions with <= 2 systems, <= 2 groups of 0..2 agents, every subset of the six hook kinds "
                         f"({len(descs)} of 13188), each written to a JSON file and decoded by the real JsonDecoder")
    ctx.exhaustive = True
    n = 300 if q else 3000
    progs = [[D.random_desc(ctx.rng) for _ in range(ctx.rng.choice([1, 2, 4]))] for _ in range(n)]
    for pr in progs:
        if ctx.rng.random() < 0.5:
            pr.append(json.loads(json.dumps(pr[0])))          # the first description once more (a re-run)
    validate(ctx, progs, "random descriptions up to 4 systems / 4 groups of 0..4 agents, arbitrary priorities and ids, decoded repeatedly")
