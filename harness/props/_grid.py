"""Shared by C09, C10, C11: Grid.tla / Grid_Trace.tla and the grid driver."""
from ..drivers import grid as G

MC = "Grid.tla"
TRACE = "Grid_Trace.tla"
TRACE_CFG = "Grid_Trace.cfg"


def validate(ctx, programs, source, expect_clean=True, tamper=True, chunk=400):
    ctx.replay_driver = "grid"
    return ctx.validate(TRACE, TRACE_CFG, programs, G.run_program, source=source,
                        tamper=G.tamper if tamper else None, expect_clean=expect_clean, chunk=chunk)


def replay(ctx, doc):
    validate(ctx, [doc["program"]], "replay", expect_clean=False, tamper=False)
