"""C01 - systems run in descending priority, registration order among equals."""
from . import _sched
from ..drivers import scheduler as S

replay = _sched.replay


def run(ctx):
    q = ctx.quick
    ctx.assumptions += ["System.priority is not changed while the system is registered (quantifier text)",
                        "execution order is observed as the order of System.execute() calls, never by reading execution_queue"]
    ctx.model_check(_sched.MC, "Scheduler_C01.cfg" if q else "Scheduler_C01_thorough.cfg", require=_sched.ALL_ACTIONS[:6])
    ctx.negative_control(_sched.MC, "Scheduler_C01_neg_geq.cfg", "C01_Ordered")
    _sched.spec_to_code(ctx, sample=2500 if q else None)
    rng = ctx.rng
    progs = S.permutation_programs(rng, 4, (-1, 0, 1), limit=1500 if q else None)
    if not q:
        progs += S.permutation_programs(rng, 5, (-1, 0, 3), limit=12000)
    _sched.validate(ctx, progs, "every registration order of the same systems x priority assignments")
    n = 600 if q else 6000
    progs = [S.random_program(rng, n_ids=6, length=40, p_mut=0.0, windows=False) for _ in range(n)]
    _sched.validate(ctx, progs, "random add/remove/step histories, 6 ids, priorities -2..2")
    progs = [S.random_program(rng, n_ids=4, prios=(-7, 0, 0, 5, 2000000000, -2000000000), length=25) for _ in range(n // 3)]
    _sched.validate(ctx, progs, "random histories with repeated / extreme priorities")
    progs = [S.random_program(rng, n_ids=5, length=40, p_mut=0.0, windows=True) for _ in range(n // 2)]
    _sched.validate(ctx, progs, "random histories of systems with activity windows (some close while the model runs), priorities -2..2")
    from .. import suite
    suite.run(ctx, ["sched"])
    if not q:
        # unbounded priorities: Apalache discharges the inductive step of the insertion algorithm for every queue of <= 6 systems
        # with ARBITRARY integer priorities (a statement about the specification, in addition to TLC's bounded exploration)
        import os
        from .. import tlc
        mod = os.path.join(tlc.SPEC, "apalache", "SchedulerInd.tla")
        ok = tlc.apalache_inductive(mod)
        neg = tlc.apalache_inductive(mod, mutate=[("~(p > queue[i].prio)", "~(p >= queue[i].prio)"),
                                                 ("(k <= Len(queue) => p > queue[k].prio)", "(k <= Len(queue) => p >= queue[k].prio)")])
        if ok != "NoError" or neg != "Error":
            raise tlc.MachineryError(f"Apalache inductive check: {ok} (expected NoError), negative control: {neg} (expected Error)")
        ctx.extra["apalache_inductive_invariant"] = {"module": "spec/apalache/SchedulerInd.tla", "outcome": ok,
                                                     "negative_control_geq": neg, "bound": "queues of <= 6 systems, priorities: all integers"}
        ctx.controls.append("Apalache: IndInit => Inv and Inv /\\ Next => Inv' hold for arbitrary integer priorities; the >= variant is refuted")
