"""Shared by C03, C04, C08, C12, C13: World.tla / World_Trace.tla and the world driver."""
import os
import shutil

from .. import tlc, graph
from ..drivers import world as Wd

MC = "MC_World.tla"
TRACE = "World_Trace.tla"
TRACE_CFG = "World_Trace.cfg"


def validate_programs(ctx, programs, source, expect_clean=True, tamper=True):
    ctx.replay_driver = "world"
    return ctx.validate(TRACE, TRACE_CFG, programs, Wd.run_program, source=source,
                        tamper=Wd.tamper if tamper else None, expect_clean=expect_clean, chunk=300)


def validate_runs(ctx, runs, source, expect_clean=True, tamper=True):
    ctx.replay_driver = "world"
    programs = [r[0] for r in runs]
    traces = [r[1] for r in runs]
    return ctx.validate_traces(TRACE, TRACE_CFG, traces, programs, source=source,
                               tamper=Wd.tamper if tamper else None, expect_clean=expect_clean, chunk=300)


def random_runs(ctx, n, **kw):
    from ..drivers import common as _c
    out = []
    for _ in range(n):
        try:
            with _c.budget():
                out.append(Wd.random_run(ctx.rng, **kw))
        except Exception as e:  # noqa: BLE001
            out.append(([["driver_crash"]], [{"op": "driver_crash", "out": "Unexpected:" + type(e).__name__, "why": str(e)[:300]}]))
        except _c.Runaway as e:
            out.append(([["runaway"]], [{"op": "runaway", "out": "Runaway", "why": str(e)}]))
            if sum(1 for r in out if r[0] == [["runaway"]]) >= 3:
                break
    return out


def spec_to_code(ctx, cfg, sample=None, max_len=14, probe=None):
    tmp = tlc.scratch("verif-mbt-")
    try:
        dot = os.path.join(tmp, "g.dot")
        res = tlc.run_tlc(MC, cfg, dump_dot=dot)
        if not res.ok:
            raise tlc.MachineryError(f"MBT graph generation failed: {res.violated}")
        inits, adj = graph.load(dot)
    finally:
        shutil.rmtree(tmp, ignore_errors=True)
    walks, st = graph.edge_cover(inits, adj, max_len=max_len)
    if st["graph_states"] != res.distinct:
        raise tlc.MachineryError(f"dot graph has {st['graph_states']} states, TLC reported {res.distinct}")
    total = len(walks)
    if sample and len(walks) > sample:
        walks = ctx.rng.sample(walks, sample)
    st["walks_replayed"] = len(walks)
    st["walks_total"] = total
    ctx.extra.setdefault("spec_to_code", []).append({"cfg": cfg, **st})
    programs = [Wd.program_from_walk(graph.parse_walk(w), probe=probe, salt=k) for k, w in enumerate(walks)]
    validate_programs(ctx, programs, f"spec->code edge cover of {cfg} ({len(walks)}/{total} walks)")


def replay(ctx, doc):
    validate_programs(ctx, [doc["program"]], "replay", expect_clean=False, tamper=False)
