"""C14 - a parameter list builds the exact Cartesian product, once each."""
import os
import shutil

from . import _batch
from .. import tlc, graph
from ..drivers import batch as B

replay = _batch.replay


def spec_to_code(ctx, cfg):
    tmp = tlc.scratch("verif-mbt-")
    try:
        dot = os.path.join(tmp, "g.dot")
        res = tlc.run_tlc(_batch.MC, cfg, dump_dot=dot)
        inits, adj = graph.load(dot)
    finally:
        shutil.rmtree(tmp, ignore_errors=True)
    walks, st = graph.edge_cover(inits, adj, max_len=8)
    ctx.extra.setdefault("spec_to_code", []).append({"cfg": cfg, **st})
    progs = [B.params_program_from_walk(graph.parse_walk(w), salt=k) for k, w in enumerate(walks)]
    _batch.validate(ctx, progs, f"spec->code edge cover of {cfg} ({len(walks)} walks; declarations through the constructor and incrementally, build after every step)")


def run(ctx):
    q = ctx.quick
    ctx.assumptions += ["declared collections are re-iterable (list, tuple, range, numpy array); scalars, None and strings are single values",
                        "values are compared through stable tokens (type tag + value)"]
    ctx.model_check(_batch.MC, "Batch_C14.cfg")
    if not q:
        ctx.model_check(_batch.MC, "Batch_C14_thorough.cfg", timeout=3000)      # 4 names, 4 declarations: 1.3 M states
    spec_to_code(ctx, "Batch_C14_mbt.cfg")
    n = 1500 if q else 15000
    progs = [B.random_params_program(ctx.rng, length=ctx.rng.choice([4, 8, 12])) for _ in range(n)]
    _batch.validate(ctx, progs, "random declare/remove/build histories, 15 value shapes, constructor and incremental API, non-string names, "
                                "returned dictionaries modified by the caller between builds")
