"""C09 - cell coordinates and cell ids are in one-to-one correspondence."""
from . import _grid
from ..drivers import grid as G

replay = _grid.replay


def run(ctx):
    q = ctx.quick
    ctx.model_check(_grid.MC, "Grid_C09.cfg" if q else "Grid_C09_thorough.cfg")      # thorough: all 729 shapes 0..8 per axis
    ctx.negative_control(_grid.MC, "Grid_C09_neg_raw_id.cfg", "C09_Injective")
    ctx.negative_control(_grid.MC, "Grid_C09_neg_raw_bounds.cfg", "C09_Bounds")
    n = 3 if q else 5
    progs = G.c09_programs(n)
    _grid.validate(ctx, progs, f"exhaustive: every shape 0..{n} per axis as DiscreteWorld (and LineWorld/GridWorld when the shape allows), "
                               "id of every cell, position table, get_cell at every coordinate inside and one step outside on every side")
    ctx.exhaustive = True
    ctx.rule = ("a case is one grid world (shape x class) with all its cells and all probe coordinates -1..extent on every axis; "
                "the finite space of shapes up to the bound is enumerated completely; distinct = distinct traces, non-trivial = >= 2 events")
