"""C11 - cell components hold each cell's own value and are independent of their sources."""
import os
import shutil

from . import _grid
from .. import tlc, graph
from ..drivers import grid as G

replay = _grid.replay


def spec_to_code(ctx, cfg, sample):
    tmp = tlc.scratch("verif-mbt-")
    try:
        dot = os.path.join(tmp, "g.dot")
        res = tlc.run_tlc(_grid.MC, cfg, dump_dot=dot)
        inits, adj = graph.load(dot)
        # the initial states differ in their shape: read it from the node label
        shapes = {}
        import re
        with open(dot, errors="replace") as f:
            for line in f:
                if line.endswith("style = filled]\n"):
                    m = re.match(r'^(-?\d+) \[label="(.*)",style = filled\]', line)
                    s = re.search(r"shape = <<(\d+), (\d+), (\d+)>>", m.group(2))
                    shapes[m.group(1)] = [int(s.group(k)) for k in (1, 2, 3)]
    finally:
        shutil.rmtree(tmp, ignore_errors=True)
    programs = []
    total = 0
    for init in inits:
        walks, st = graph.edge_cover([init], adj, max_len=8)
        total += len(walks)
        for k, w in enumerate(walks):
            cls = G.classes_for(shapes[init])
            programs.append(G.program_from_walk(graph.parse_walk(w), shapes[init], cls[k % len(cls)]))
    if sample and len(programs) > sample:
        programs = ctx.rng.sample(programs, sample)
    ctx.extra.setdefault("spec_to_code", []).append({"cfg": cfg, "graph_states": res.distinct, "walks_total": total,
                                                      "walks_replayed": len(programs)})
    _grid.validate(ctx, programs, f"spec->code edge cover of {cfg} ({len(programs)}/{total} walks)", expect_clean=False)


def run(ctx):
    q = ctx.quick
    ctx.assumptions += ["lists/arrays have one element per cell; values are integers (position-dependent: 100x+10y+z+k)"]
    ctx.model_check(_grid.MC, "Grid_C11.cfg" if q else "Grid_C11_thorough.cfg", timeout=3000)
    spec_to_code(ctx, "Grid_C11.cfg", 2500 if q else None)
    n = 500 if q else 5000
    progs = [G.c11_random_program(ctx.rng, max_ext=3 if q else 4, length=12) for _ in range(n)]
    _grid.validate(ctx, progs, "random add/mutate-source/remove histories, 5 source kinds, line / 2-D / 3-D / degenerate shapes",
                   expect_clean=False)
