"""Shared by C14, C15, C16: Batch.tla / Batch_Trace.tla and the batch driver."""
from ..drivers import batch as B

MC = "MC_Batch.tla"
TRACE = "Batch_Trace.tla"
TRACE_CFG = "Batch_Trace.cfg"


def validate(ctx, programs, source, tamper=True, chunk=1500, isolated=False, expect_clean=True):
    ctx.replay_driver = "batch"
    return ctx.validate(TRACE, TRACE_CFG, programs, B.run_program, source=source, expect_clean=expect_clean,
                        tamper=B.tamper if tamper else None, chunk=chunk, min_events=1,
                        isolated=("batch", "run_program", 120) if isolated else None)


def replay(ctx, doc):
    validate(ctx, [doc["program"]], "replay", tamper=False)
