"""C20 - class components and default tags belong to exactly one agent class."""
import os
import shutil

from .. import tlc, graph
from ..drivers import agentclass as AC

MC = "AgentClass.tla"
TRACE = "AgentClass_Trace.tla"
TRACE_CFG = "AgentClass_Trace.cfg"


def validate(ctx, programs, source, tamper=True):
    ctx.replay_driver = "agentclass"
    return ctx.validate(TRACE, TRACE_CFG, programs, AC.run_program, source=source, expect_clean=True,
                        tamper=AC.tamper if tamper else None, chunk=1500)


def replay(ctx, doc):
    validate(ctx, [doc["program"]], "replay", tamper=False)


def spec_to_code(ctx, cfg, sample):
    tmp = tlc.scratch("verif-mbt-")
    try:
        dot = os.path.join(tmp, "g.dot")
        res = tlc.run_tlc(MC, cfg, dump_dot=dot)
        inits, adj = graph.load(dot)
    finally:
        shutil.rmtree(tmp, ignore_errors=True)
    walks, st = graph.edge_cover(inits, adj, max_len=10)
    total = len(walks)
    if sample and total > sample:
        walks = ctx.rng.sample(walks, sample)
    ctx.extra.setdefault("spec_to_code", []).append({"cfg": cfg, **st, "walks_replayed": len(walks)})
    validate(ctx, [AC.program_from_walk(graph.parse_walk(w)) for w in walks],
             f"spec->code edge cover of {cfg} ({len(walks)}/{total} walks)")


def run(ctx):
    q = ctx.quick
    ctx.assumptions += ["fresh subclasses A, B (siblings), A1 (child of A) per trace; Agent and Environment take part and are restored afterwards",
                        "Environment instances are created without an explicit tag (its constructor offers none)"]
    ctx.model_check(MC, "AgentClass_C20.cfg" if q else "AgentClass_C20_thorough.cfg", timeout=3000)
    ctx.negative_control(MC, "AgentClass_C20_neg_base.cfg", "C20_DefaultOwn")
    spec_to_code(ctx, "AgentClass_MBT.cfg", 2500 if q else None)
    n = 1500 if q else 15000
    validate(ctx, [AC.random_program(ctx.rng, length=ctx.rng.choice([8, 16, 24])) for _ in range(n)],
             "random class-level histories over Agent/Environment/A/B/A1 interleaved with instance creation and instance components")
