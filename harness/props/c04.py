"""C04 - environment holds exactly the live agents; failed operations leave no trace."""
from . import _world

replay = _world.replay
W = {"agents_at": 0, "pick": 0, "shuffle": 0, "get_agents": 1, "lookup": 8, "join": 12, "leave": 8, "move": 0, "move_to": 0,
     "attach": 8, "detach": 1}


def probe(op, kinds, homes, n):
    """After every operation of a graph walk: look every identifier up (both ways) in the model concerned."""
    if op[0] not in ("join", "leave"):
        return []
    m = op[1] if op[0] == "leave" else homes[tuple(op[1])]
    ids = sorted({a[0] for a in homes}) + ["nobody"]
    return [["lookup", m, i, bool((n + k) % 2)] for k, i in enumerate(ids)]


def run(ctx):
    q = ctx.quick
    ctx.assumptions += ["agents' component sets are not modified while they are resident (that dimension is C03's)",
                        "a placement that is both duplicate and out of bounds may raise either documented error"]
    ctx.model_check(_world.MC, "World_C04.cfg")
    _world.spec_to_code(ctx, "World_MBT_c04.cfg", sample=3000 if q else 40000, probe=probe)
    n = 300 if q else 3000
    for kinds, label in ((("plain",), "plain environment"), (("space",), "continuous worlds"), (("grid", "line", "grid2d"), "grid worlds")):
        runs = _world.random_runs(ctx, n, kinds=kinds, mods="clean", length=50, weights=W, n_ids=3, guests=True, late_install=True)
        _world.validate_runs(ctx, runs, f"random add/remove/lookup histories with colliding ids and injected errors, {label}")
    # several residents carrying the same component types leave in every order: the listings keep the joining order of those who stay
    from ..drivers import world as Wd
    _world.validate_programs(ctx, Wd.carrier_programs(4) + Wd.carrier_programs(5, limit=30 if q else None, rng=ctx.rng),
                             "4..5 carriers of the same component types join, then leave in every order, first leaver re-joins")
    if not q:
        from .. import suite
        suite.run(ctx, ["space", "pop"])
