"""C17 - collectors record faithfully: nothing invented, altered, lost or duplicated."""
import os
import shutil

from .. import tlc, graph
from ..drivers import collectors as CL

MC = "MC_Collectors.tla"
TRACE = "Collectors_Trace.tla"
TRACE_CFG = "Collectors_Trace.cfg"
F = CL.FOREVER
AC_MBT = [{"name": "c1", "start": 0, "end": F, "freq": 1, "fkind": "odd_none", "comp": "total", "incl": False},
          {"name": "c2", "start": 1, "end": 2, "freq": 1, "fkind": "value", "comp": "nofunc", "incl": True}]
FC_MBT = [{"name": "f1", "start": 0, "end": F, "freq": 1, "wc": 1, "plan": [0, 1]}]


def validate(ctx, programs, source, tamper=True):
    ctx.replay_driver = "collectors"
    return ctx.validate(TRACE, TRACE_CFG, programs, CL.run_program, source=source, expect_clean=True,
                        tamper=CL.tamper if tamper else None, chunk=800)


def replay(ctx, doc):
    validate(ctx, [doc["program"]], "replay", tamper=False)


def spec_to_code(ctx, cfg, sample):
    tmp = tlc.scratch("verif-mbt-")
    try:
        dot = os.path.join(tmp, "g.dot")
        res = tlc.run_tlc(MC, cfg, dump_dot=dot)
        inits, adj = graph.load(dot)
    finally:
        shutil.rmtree(tmp, ignore_errors=True)
    walks, st = graph.edge_cover(inits, adj, max_len=10)
    total = len(walks)
    if sample and total > sample:
        walks = ctx.rng.sample(walks, sample)
    ctx.extra.setdefault("spec_to_code", []).append({"cfg": cfg, **st, "walks_replayed": len(walks)})
    validate(ctx, [CL.program_from_walk(graph.parse_walk(w), AC_MBT, FC_MBT) for w in walks],
             f"spec->code edge cover of {cfg} ({len(walks)}/{total} walks)")


def run(ctx):
    q = ctx.quick
    ctx.assumptions += ["collectors keep their default priority (-1) and observe the state left by the population-changing system (priority 0)",
                        "file collector in append mode with the default clear_records_on_write; its records are strings",
                        "agent ids other than 'timestep' / composite keys (observation O8 in DESIGN 4.3)"]
    ctx.model_check(MC, "Collectors_C17.cfg" if q else "Collectors_C17_thorough.cfg", timeout=3000)
    ctx.negative_control(MC, "Collectors_C17_neg_le.cfg", "C17_FlushRule")
    spec_to_code(ctx, "Collectors_MBT.cfg", 1500 if q else None)
    validate(ctx, CL.sweep_programs(), "write_count 0..3 x 0..2 records per collection x 9 timesteps (file state after EVERY timestep = every stop point)")
    n = 400 if q else 4000
    validate(ctx, [CL.random_program(ctx.rng, steps=ctx.rng.choice([5, 8, 12])) for _ in range(n)],
             "random populations changing between and during timesteps, per-agent functions returning values or nothing, composite functions, "
             "collector windows, write_count 0..3")
