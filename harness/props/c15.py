"""C15 - a batch runs every combination x repetition once; no result lost or mixed."""
import os

from . import _batch
from ..drivers import batch as B

replay = _batch.replay


def run(ctx):
    q = ctx.quick
    cores = os.cpu_count() or 4
    ctx.assumptions += ["OS scheduling of pool workers is perturbed by per-run sleeps drawn from the grid (0..7 ms), not enumerated; "
                        "TLC enumerates the schedules of the pool model exhaustively",
                        "with one process both repetition-major (as implemented) and combination-major result order are accepted",
                        "multiprocessing (fork) and pickling of the fixture classes are trusted"]
    for cfg in ("Batch_C15.cfg", "Batch_C15_fail.cfg", "Batch_C15_serial.cfg"):
        ctx.model_check(_batch.MC, cfg)
    if not q:
        # deeper bounds: 10 tasks on 5 workers (15.0 M states, 72 s), and the same with three failing executions (0.7 M states)
        for cfg in ("Batch_C15_thorough.cfg", "Batch_C15_fail_thorough.cfg"):
            ctx.model_check(_batch.MC, cfg, timeout=3600)
    ctx.negative_control(_batch.MC, "Batch_C15_neg_drop.cfg", ("C15_ExactlyOnce", "C15_ErrorSurfaces"))
    # liveness: under fair workers every batch ends, with or without a failing execution (negative control: no fairness)
    ctx.model_check(_batch.MC, "Batch_C15_live.cfg")
    ctx.model_check(_batch.MC, "Batch_C15_live_fail.cfg")
    ctx.negative_control(_batch.MC, "Batch_C15_live_neg_unfair.cfg", "C15_BatchEnds")
    procs = [1, 2, 3, cores] if q else list(range(1, cores + 1))
    _batch.validate(ctx, B.fail_position_programs(procs), "a failing execution at every position of a 4-task batch x process counts", tamper=False, isolated=True,
                    expect_clean=False)
    _batch.validate(ctx, B.empty_batch_programs(procs), "batches without any execution (empty value list / zero repetitions) x process counts",
                    tamper=False, isolated=True)
    _batch.validate(ctx, B.reused_list_programs(ctx.rng, procs, 30 if q else 300),
                    "2-4 batch runs on one ParameterList with parameters added / removed in between", tamper=False, isolated=True, chunk=40)
    n = 120 if q else 1500
    progs = [B.random_batch_program(ctx.rng, procs) for _ in range(n)]
    _batch.validate(ctx, progs, "random grids (1x1..3x2x2), repetitions 1..3, limits below/at/above completion, one or two collectors, "
                                f"processes {procs[0]}..{procs[-1]}, perturbed run durations, failing executions", isolated=True, expect_clean=False, chunk=40)
