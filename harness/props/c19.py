"""C19 - tag libraries keep a stable name<->id bijection and cannot be corrupted."""
import os
import shutil

from .. import tlc, graph
from ..drivers import tags as T

MC = "Tags.tla"
TRACE = "Tags_Trace.tla"
TRACE_CFG = "Tags_Trace.cfg"


def validate(ctx, programs, source, tamper=True):
    ctx.replay_driver = "tags"
    traces = T.run_programs(programs)
    return ctx.validate_traces(TRACE, TRACE_CFG, traces, programs, source=source, expect_clean=True,
                               tamper=T.tamper if tamper else None, chunk=1500)


def replay(ctx, doc):
    validate(ctx, [doc["program"]], "replay", tamper=False)


def spec_to_code(ctx, cfg, sample):
    tmp = tlc.scratch("verif-mbt-")
    try:
        dot = os.path.join(tmp, "g.dot")
        res = tlc.run_tlc(MC, cfg, dump_dot=dot)
        inits, adj = graph.load(dot)
    finally:
        shutil.rmtree(tmp, ignore_errors=True)
    walks, st = graph.edge_cover(inits, adj, max_len=10)
    total = len(walks)
    if sample and total > sample:
        walks = ctx.rng.sample(walks, sample)
    ctx.extra.setdefault("spec_to_code", []).append({"cfg": cfg, **st, "walks_replayed": len(walks)})
    programs = [T.program_from_walk(graph.parse_walk(w)) for w in walks]
    validate(ctx, programs, f"spec->code edge cover of {cfg} ({len(walks)}/{total} walks), each in a fresh interpreter")


def run(ctx):
    q = ctx.quick
    ctx.assumptions += ["a name that already resolves on the library object (computed from the live object with hasattr / the module's globals) "
                        "may be rejected without change or accepted with everything still working (DESIGN 3.2)",
                        "an unknown NAME on a local library may raise AttributeError or TagNotFoundError; on the global library and for unknown ids "
                        "it must be TagNotFoundError", "tag names are strings"]
    ctx.model_check(MC, "Tags_C19.cfg")
    ctx.negative_control(MC, "Tags_C19_neg_overwrite.cfg", "C19_NotBroken")
    spec_to_code(ctx, "Tags_MBT.cfg", 400 if q else 4000)
    n = 1500 if q else 15000
    progs = [T.random_program(ctx.rng, False, length=ctx.rng.choice([6, 12, 20])) for _ in range(n)]
    validate(ctx, progs, "random histories on two fresh local libraries: ordinary, duplicate, NONE, attribute/method/dunder names, arbitrary strings")
    n = 600 if q else 6000
    progs = [T.random_program(ctx.rng, False, length=ctx.rng.choice([3, 6, 12]), cold=True) for _ in range(n)]
    validate(ctx, progs, "cold histories on local libraries: the first add_tag of a library precedes every other call on it (lazily created "
                         "state does not exist yet); names read off the live library object and its class are offered too")
    n = 100 if q else 1000
    progs = [T.random_program(ctx.rng, True, length=ctx.rng.choice([3, 6, 12]), cold=True) for _ in range(n)]
    validate(ctx, progs, "cold histories incl. the module-level global library, fresh interpreter per history")
    n = 300 if q else 3000
    progs = [T.random_program(ctx.rng, True, length=ctx.rng.choice([6, 12, 20])) for _ in range(n)]
    validate(ctx, progs, "random histories incl. the module-level global library and the module's own global names, fresh interpreter per history")
