"""./check drift - behaviour that no listed property fixes, compared with the specification all the same.
Never raises an alarm: differences are printed as DRIFT lines, the exit code is 0 (2 only for machinery failure).
Currently: every deprecated camelCase alias must behave as the operation it replaces (the alias runs are validated against
the same trace specifications as the replacement)."""
from .. import judge as judge_mod
from ..drivers import scheduler as S, world as Wd, grid as G
from ..runner import log

LEVEL = "model_checking"


def _judge(ctx, module, cfg, programs, runner, flag, label):
    flag[0] = True
    try:
        traces = [runner(p) for p in programs]
    finally:
        flag[0] = False
    verdicts = judge_mod.judge(module, cfg, traces, chunk=1500)
    bad = [(v, t) for v, t in zip(verdicts, traces) if not v.accepted]
    ctx.evaluations += len(traces)
    ctx.traces_validated += len(traces) - len(bad)
    log(f"  {label}: {len(traces)} alias traces, {len(bad)} differ from the replacement's specification")
    seen = set()
    for v, t in bad:
        ev = t[v.at - 1] if v.at and v.at <= len(t) else {}
        key = (ev.get("op"), ev.get("out"))
        if key in seen:
            continue
        seen.add(key)
        print(f"DRIFT: {label}: operation {ev.get('op')} (outcome {ev.get('out')}) is not a step of the specification of its replacement"
              + (f"; e.g. {({k: x for k, x in ev.items() if k != 'obs'})}"[:300]))
    return len(bad)


def _plain(ctx, module, cfg, programs, runner, label, chunk=1500):
    traces = [runner(p) for p in programs]
    verdicts = judge_mod.judge(module, cfg, traces, chunk=chunk)
    bad = [(v, t) for v, t in zip(verdicts, traces) if not v.accepted]
    ctx.evaluations += len(traces)
    ctx.traces_validated += len(traces) - len(bad)
    log(f"  {label}: {len(traces)} traces, {len(bad)} not explained by the specification")
    seen = set()
    for v, t in bad:
        ev = t[v.at - 1] if v.at and v.at <= len(t) else {}
        if ev.get("op") not in seen:
            seen.add(ev.get("op"))
            print(f"DRIFT: {label}: {({k: x for k, x in ev.items() if k != 'obs'})}"[:400])


def api_growth(ctx, n):
    """Public behaviour outside the twenty properties that the specification covers all the same."""
    rng = ctx.rng
    progs = []
    for _ in range(n):
        p = S.random_program(rng, n_ids=4, length=15, multi=False)
        q = []
        for op in p:
            q.append(op)
            if rng.random() < 0.4:
                q.append(["lookup", rng.choice(["a", "b", "c", "d", "zz"]), rng.random() < 0.5])
        progs.append(q)
    _plain(ctx, "Scheduler_Trace.tla", "Scheduler_Trace.cfg", progs, S.run_program, "systems[id] / systems[(id, True)]")
    progs = []
    for _ in range(n):
        prog, _ev = Wd.random_run(rng, kinds=("space", "grid", "line", "grid2d"), n_models=1, mods="clean", length=25,
                                  weights={"agents_at": 0, "pick": 0, "shuffle": 0, "get_agents": 0, "lookup": 0})
        q = []
        agents = []
        for op in prog:
            q.append(op)
            if op[0] == "agent":
                agents.append(op[1])
            if op[0] in ("move", "move_to", "join") and len(agents) >= 2 and rng.random() < 0.5:
                a, b = rng.sample(agents, 2)
                q.append(["geom", a, b])
            if op[0] == "model":
                q.append(["dims", op[1]])
        progs.append(q)
    _plain(ctx, "World_Trace.tla", "World_Trace.cfg", progs, Wd.run_program, "get_dimensions / distance_sqr / PositionComponent accessors")


def composition(ctx, n):
    from ..drivers import core as CO
    progs = [CO.random_program(ctx.rng, length=ctx.rng.choice([8, 14, 20])) for _ in range(n)]
    _plain(ctx, "Core_Trace.tla", "Core_Trace.cfg", progs, CO.run_program,
           "composition: systems acting on the population while the scheduler steps (Scheduler x World, no interference)",
           chunk=5)      # named instances: TLC re-reads the trace file per evaluation, so the batches are kept small


def run(ctx):
    rng = ctx.rng
    n = 150 if ctx.quick else 1500
    composition(ctx, 120 if ctx.quick else 1200)
    api_growth(ctx, n)
    progs = [S.random_program(rng, n_ids=4, length=25, p_mut=0.2, windows=True, multi=False) for _ in range(n)]
    _judge(ctx, "Scheduler_Trace.tla", "Scheduler_Trace.cfg", progs, S.run_program, S.ALIAS, "addSystem / removeSystem / executeSystems")
    runs = [Wd.random_run(rng, kinds=("plain",), mods="clean", length=40, n_ids=4, tags=(None,),
                          weights={"agents_at": 0, "pick": 0, "shuffle": 0, "move": 0, "move_to": 0}) for _ in range(n)]
    progs = [[op if not (op[0] in ("get_agents",) and op[3] is not None) else [op[0], op[1], op[2], None] for op in r[0]] for r in runs]
    _judge(ctx, "World_Trace.tla", "World_Trace.cfg", progs, Wd.run_program, Wd.ALIAS,
           "addAgent / removeAgent / getAgent / getAgents / addComponent / removeComponent / getComponents")
    progs = G.c09_programs(2) + [G.c11_random_program(rng, max_ext=2, length=8) for _ in range(n // 3)]
    _judge(ctx, "Grid_Trace.tla", "Grid_Trace.cfg", progs, G.run_program, G.ALIAS, "discreteGridPosToID / getCell / addCellComponent")
    ctx.rule = "a case is one driver program executed through the deprecated aliases; rejected traces are reported as DRIFT, never as a violation"
    ctx.samples.append({"note": "drift runner: alias traces only"})
