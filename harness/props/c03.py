"""C03 - component listings mirror exactly the components of agents in the model."""
from . import _world

replay = _world.replay
NOQ = {"agents_at": 0, "pick": 0}
ALLK = ("plain", "space", "grid", "line", "grid2d")


def run(ctx):
    q = ctx.quick
    ctx.assumptions += ["each component instance belongs to one agent; component classes use identity equality",
                        "PositionComponent (managed by the spatial world itself) is not part of the claim",
                        "set_environment only on an unpopulated model"]
    ctx.model_check(_world.MC, "World_C03.cfg")
    ctx.model_check(_world.MC, "World_C03_dev.cfg")
    ctx.model_check(_world.MC, "World_C03_raw.cfg", require=("OfferRegisterRaw", "OfferDeregisterRaw"))
    for f in ("F1", "F3", "F6"):
        ctx.negative_control(_world.MC, f"World_C03_neg_{f}.cfg", "MirrorAlways")
    _world.spec_to_code(ctx, "World_MBT_c03.cfg", sample=2500 if q else None)
    # the repository's own tests under the tracer: every recorded join / leave / attach / detach / register / deregister is
    # validated as a World step from its recorded pre-state (Population_Suite.tla)
    from .. import suite
    suite.run(ctx, ["pop"])
    from ..drivers import world as Wd
    progs = Wd.carrier_programs(4) + Wd.carrier_programs(3, ("grid2d", [3, 2, 0], False)) + \
        Wd.carrier_programs(5, limit=40 if q else None, rng=ctx.rng) + \
        (Wd.carrier_programs(4, ("space", [16, 8, 0], True)) + Wd.carrier_programs(6, limit=300, rng=ctx.rng) if not q else [])
    _world.validate_programs(ctx, progs, "3..6 carriers of the same component types join, then leave in every order (each permutation), first leaver re-joins")
    _world.validate_programs(ctx, [Wd.crowd_program(ctx.rng) for _ in range(20 if q else 200)],
                             "a crowd of 14 carriers of one component type: the listing grows beyond ten entries, shrinks to a handful and grows again")
    # systems that make agents join and leave while a timestep is in progress (composition, Core_Trace.tla): the listings are
    # projected after every such operation, i.e. also in the middle of timesteps
    from ..drivers import core as CO
    progs = [CO.random_program(ctx.rng, length=ctx.rng.choice([8, 14])) for _ in range(60 if q else 600)]
    ctx.validate("Core_Trace.tla", "Core_Trace.cfg", progs, CO.run_program, source="population changed by systems in the middle of timesteps "
                 "(composition Scheduler x World)", expect_clean=True, chunk=5)
    n = 250 if q else 2500
    runs = _world.random_runs(ctx, n, kinds=ALLK, mods="clean", length=50, weights=NOQ, n_ids=5, guests=True, late_install=True)
    _world.validate_runs(ctx, runs, "random histories, components changed only while not resident, 5 world kinds, 2 models")
    runs = _world.random_runs(ctx, n, kinds=ALLK, mods="sanctioned", length=40, weights=NOQ)
    _world.validate_runs(ctx, runs, "random histories, residents modified with the explicit register/deregister calls", expect_clean=False)
    runs = _world.random_runs(ctx, n, kinds=ALLK, mods="any", length=40, weights=NOQ)
    _world.validate_runs(ctx, runs, "random histories, residents modified with and without register/deregister", expect_clean=False)
    # the explicit register / deregister calls on their own, also for agents that are not resident: whatever such a call does to
    # the mirror is the caller's doing (deviation RAW, tolerated here); every operation after it must still be the specification's
    # step from the state reached - a join that meets a hand-registered component stops half-way exactly as modelled (JoinHalfway)
    ctx.tolerated = {"RAW"}
    runs = _world.random_runs(ctx, n, kinds=ALLK, mods="raw", length=40, weights=NOQ)
    _world.validate_runs(ctx, runs, "random histories with the low-level register / deregister calls on their own", expect_clean=False)
    ctx.tolerated = set()
