"""C16 - grid search scores every combination correctly and returns the true best."""
import itertools
import os

from . import _batch
from ..drivers import batch as B

replay = _batch.replay
MODES = sorted(B.MODES)


def run(ctx):
    q = ctx.quick
    cores = os.cpu_count() or 4
    ctx.assumptions += ["scores are integers s mapped monotonically to Python numbers s, s/4 (float) or s*2**61 (beyond sys.maxsize for |s| >= 5); "
                        "float aggregates are compared as the rational they round (tolerance 1e-9 relative when rescaling to a common denominator)",
                        "repetitions >= 2 for the variance modes"]
    ctx.model_check(_batch.MC, "Batch_C16.cfg" if q else "Batch_C16_thorough.cfg", timeout=3000)
    ctx.negative_control(_batch.MC, "Batch_C16_neg_sentinel.cfg", "C16_Best")
    rng = ctx.rng
    vals = [-6, -5, -1, 0, 2, 5, 6]
    # every position of the optimum, ties, all beyond the sentinel: 3 combinations x 1 repetition over a 7-value alphabet
    tables = [[[a], [b], [c]] for a, b, c in itertools.product(vals, repeat=3)]
    # all 343 tables with every score beyond sys.maxsize in magnitude or not, MIN and MAX: cheap, always complete
    progs = B.search_programs_from_tables(tables, ["MIN", "MAX"], [1], ["big"], rng)
    if q:
        tables = rng.sample(tables, 60)
    progs += B.search_programs_from_tables(tables, ["MIN", "MAX", "MIN_SUM", "MAX_MEAN"], [1], ["1", "big", "q"], rng)
    _batch.validate(ctx, progs, "score tables 3 combinations x 1 repetition over {-6,-5,-1,0,2,5,6} (x 2**61: beyond sys.maxsize), serial", chunk=800)
    n = 40 if q else 400
    tables = []
    for _ in range(n):
        nc, nr = rng.choice([(2, 2), (3, 2), (3, 3), (4, 2), (4, 3), (1, 2)])
        tables.append([[rng.choice([-6, -3, -2, -1, 0, 0, 1, 2, 3, 6]) for _ in range(nr)] for _ in range(nc)])
    procs = [1, 2, 4] if q else [1, 2, 3, 4, 8, cores]
    serial = B.search_programs_from_tables(tables, MODES, [1], ["1", "q", "big"], rng)
    _batch.validate(ctx, serial, "random score tables (ties, negatives, non-monotone) x 8 modes, serial", chunk=800)
    _batch.validate(ctx, B.repeated_search_programs(tables, rng, 40 if q else 400),
                    "2-3 consecutive searches re-using one ParameterList object", chunk=800, isolated=True)
    par = []
    for p in procs[1:]:
        par += B.search_programs_from_tables(tables[:100], MODES, [p], ["1", "q", "big"], rng)
    _batch.validate(ctx, par, f"the same score tables x 8 modes x processes {procs[1:]}: every run must match the specification, "
                              "hence serial = parallel", chunk=800, isolated=True)
