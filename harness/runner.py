"""Common pipeline of every check: TLC exhaustive runs (+ vacuity, negative controls), spec->code and
code->spec trace batches judged by TLC, known-finding classification, evidence, replay files."""
import hashlib
import importlib
import json
import os
import random
import sys
import time
import traceback

from . import tlc, judge as judge_mod

VERIF = tlc.VERIF
EVID = os.environ.get("VERIF_EVIDENCE_DIR", os.path.join(VERIF, "evidence"))
REPLAYS = os.environ.get("VERIF_REPLAY_DIR", os.path.join(VERIF, "replays"))


def load_known():
    with open(os.path.join(VERIF, "known_findings.json")) as f:
        doc = json.load(f)
    return doc.get("findings", [])


class Ctx:
    def __init__(self, pid, tier, seed):
        self.pid = pid
        self.tier = tier
        self.quick = tier == "quick"
        self.seed = seed
        self.rng = random.Random(seed)
        self.t0 = time.time()
        self.states = 0
        self.transitions = 0
        self.tlc_runs = []
        self.traces_validated = 0
        self.events = 0
        self.evaluations = 0
        self.distinct = set()
        self.samples = []
        self.violations = []       # (text, replay path)
        self.known_seen = {}       # key -> count
        self.notes = []
        self.assumptions = []
        self.controls = []
        self.sources = {}
        self.exhaustive = None
        self.rule = ""
        self.known = {k["key"]: k for k in load_known() if k["property"] == pid}
        self.tolerated = set()     # deviations that belong to ANOTHER property's known findings: accepted silently here
        self.extra = {}

    # ---------------- TLC on the specification itself ----------------
    def model_check(self, module, cfg, *, require=(), label=None, **kw):
        """Exhaustive (or simulated) run that must hold."""
        res = tlc.run_tlc(module, cfg, coverage=bool(require), **kw)
        self.tlc_runs.append({"cfg": cfg, "role": "property", **res.summary()})
        if not res.ok:
            # the specification itself violates the property: design-level failure
            raise tlc.MachineryError(f"specification check failed: {cfg}: {res.violated}\n" + res.out[-2500:])
        if require:
            tlc.vacuity(res, require)
        self.states += res.distinct
        self.transitions += res.generated
        log(f"  TLC {cfg}: {res.distinct} distinct / {res.generated} generated states, depth {res.depth}, {res.wall:.1f}s -- holds")
        return res

    def negative_control(self, module, cfg, must_violate, **kw):
        """A documented wrong algorithm switched on by a constant: TLC MUST find the violation."""
        res = tlc.run_tlc(module, cfg, **kw)
        self.tlc_runs.append({"cfg": cfg, "role": "negative_control", **res.summary()})
        names = (must_violate,) if isinstance(must_violate, str) else tuple(must_violate)
        if res.ok or res.violated not in names:
            raise tlc.MachineryError(f"negative control {cfg} did not fire: ok={res.ok} violated={res.violated} expected {names}")
        self.controls.append(f"{cfg}: TLC refutes {res.violated} (as it must)")
        log(f"  TLC {cfg}: negative control refuted {res.violated} after {res.distinct} states, {res.wall:.1f}s")
        return res

    # ---------------- traces from the implementation ----------------
    def validate(self, trace_module, trace_cfg, programs, runner, *, source, expect_clean=False,
                 tamper=None, extra_doc=None, chunk=3000, env=None, min_events=2, isolated=None):
        """Run each program on the real code (runner(program) -> events), have TLC judge the traces."""
        programs = list(programs)
        t0 = time.time()
        if isolated:
            # programs that fork worker pools run in their own fresh interpreter under a timeout (see drivers/common.py)
            from .drivers import common as _c
            res = _c.run_isolated(isolated[0], isolated[1], programs, timeout=isolated[2] if len(isolated) > 2 else 90)
            lost = [i for i, r in enumerate(res) if r is None]
            if lost:
                # a program that does not end in three attempts (the last with twice the time) in its own fresh interpreter, while a
                # program of the same batch that did end ends again when repeated now (the machine is healthy): runaway execution
                done = [i for i, r in enumerate(res) if r is not None]
                tmo = isolated[2] if len(isolated) > 2 else 90
                healthy = bool(done) and _c.run_isolated(isolated[0], isolated[1], [programs[done[0]]], timeout=tmo)[0] is not None
                if not healthy:
                    raise tlc.MachineryError(f"{len(lost)} of {len(programs)} isolated driver runs did not finish and the control run "
                                             f"did not either ({source})")
                self.extra["runaway_isolated_programs"] = self.extra.get("runaway_isolated_programs", 0) + len(lost)
                for i in lost:
                    res[i] = [{"op": "runaway", "out": "Runaway", "why": "the program did not end in its own fresh interpreter (three attempts)"}]
            traces = [([{"op": "driver_crash", "out": "Unexpected:crash", "why": r["crash"][-300:]}] if isinstance(r, dict) and "crash" in r else r)
                      for r in res]
        else:
            traces = []
            from .drivers import common as _c
            runaways = 0
            for p in programs:
                try:
                    with _c.budget():
                        traces.append(runner(p))
                except Exception as e:  # noqa: BLE001
                    # the implementation did something the driver cannot even record (it never does on a conforming tree):
                    # reported as an unexplained event with the exception's name, the replay file carries the program
                    traces.append([{"op": "driver_crash", "out": "Unexpected:" + type(e).__name__, "why": str(e)[:300]}])
                except _c.Runaway as e:
                    # not a step of any specification: judged (and reported) like any other unexplained event
                    traces.append([{"op": "runaway", "out": "Runaway", "why": str(e)}])
                    runaways += 1
                    if runaways >= 3:
                        # three programs of this batch ran away: the rest of the batch is not executed (the verdict is settled)
                        programs = programs[:len(traces)]
                        self.notes.append(f"{source}: batch cut short after three runaway programs")
                        break
        t_run = time.time() - t0
        return self.validate_traces(trace_module, trace_cfg, traces, programs, source=source,
                                    expect_clean=expect_clean, tamper=tamper, extra_doc=extra_doc,
                                    chunk=chunk, env=env, t_run=t_run, min_events=min_events)

    def validate_traces(self, trace_module, trace_cfg, traces, programs, *, source, expect_clean=False,
                        tamper=None, extra_doc=None, chunk=3000, env=None, t_run=0.0, min_events=2):
        st = {}
        batch = list(traces)
        src_idx = []
        if tamper is not None and traces:
            # tamper controls: corrupted copies of real traces MUST be rejected
            for t_i in list(range(0, len(traces), max(1, len(traces) // 6)))[:6]:
                c = tamper(json.loads(json.dumps(traces[t_i])), self.rng)
                if c is not None:
                    src_idx.append(t_i)
                    batch.append(c)
        verdicts = judge_mod.judge(trace_module, trace_cfg, batch, extra_doc=extra_doc, chunk=chunk, env=env, stats=st)
        if src_idx:
            fired = 0
            for k, t_i in enumerate(src_idx):
                vc, vs = verdicts[len(traces) + k], verdicts[t_i]
                if not vs.accepted:
                    continue
                if vc.accepted and set(vc.devsets) <= set(vs.devsets):
                    raise tlc.MachineryError(f"tamper control accepted by {trace_module} ({source}): "
                                             f"the trace specification does not constrain the corrupted field")
                fired += 1
            self.controls.append(f"{source}: {fired} tampered traces rejected")
        verdicts = verdicts[:len(traces)]
        acc = 0
        for k, (v, tr) in enumerate(zip(verdicts, traces)):
            self.evaluations += 1
            self.events += len(tr)
            if len(tr) >= min_events:
                self.distinct.add(hashlib.sha1(json.dumps(tr, sort_keys=True).encode()).hexdigest())
            if v.clean:
                acc += 1
                continue
            if v.accepted:
                dev = [d for d in v.min_dev() if d not in self.tolerated]
                unknown = [d for d in dev if d not in self.known]
                if not unknown and not expect_clean:
                    acc += 1
                    for d in dev:
                        self.known_seen[d] = self.known_seen.get(d, 0) + 1
                    continue
                why = (f"accepted only with deviation(s) {dev}" +
                       (" in a history that must be clean" if not unknown else f"; not a listed finding: {unknown}"))
                self._violation(trace_module, trace_cfg, programs[k] if programs else None, tr, v, source, why, extra_doc)
            else:
                self._violation(trace_module, trace_cfg, programs[k] if programs else None, tr, v, source,
                                "no specification step explains the event", extra_doc)
        self.traces_validated += len(traces)
        s = self.sources.setdefault(source, {"traces": 0, "events": 0, "accepted": 0})
        s["traces"] += len(traces)
        s["events"] += sum(len(t) for t in traces)
        s["accepted"] += acc
        if traces and len(self.samples) < 4:
            i = self.rng.randrange(len(traces))
            self.samples.append({"source": source, "trace": traces[i][:12], "program": (programs[i] if programs else None)})
        log(f"  {source}: {len(traces)} traces / {sum(len(t) for t in traces)} events, {acc} accepted, "
            f"run {t_run:.1f}s judge {st.get('judge_wall_s', 0)}s")
        return verdicts

    def _violation(self, module, cfg, program, trace, v, source, why, extra_doc):
        if len(self.violations) >= 5:
            self.violations.append((why, None))
            return
        at = v.at if v.at else (len(trace) if v.accepted else None)
        doc = {"property": self.pid, "trace_module": module, "trace_cfg": cfg, "source": source, "seed": self.seed,
               "why": why, "rejected_event_index": at,
               "rejected_event": (trace[at - 1] if at and at <= len(trace) else None),
               "spec_state_before": v.state, "program": program, "trace": trace, "extra_doc": extra_doc,
               "driver": getattr(self, "replay_driver", None)}
        os.makedirs(REPLAYS, exist_ok=True)
        dig = hashlib.sha1(json.dumps(trace, sort_keys=True).encode()).hexdigest()[:12]
        path = os.path.join(REPLAYS, f"{self.pid}-{dig}.json")
        with open(path, "w") as f:
            json.dump(doc, f, indent=1)
        ev = doc["rejected_event"]
        log(f"  !! {source}: {why}; event #{at}: {json.dumps(ev)[:400] if ev else '-'}")
        if v.state:
            log(f"     specification state before it: {v.state[:600]}")
        self.violations.append((why, path))

    def violation(self, why, doc):
        """A violation found outside trace validation (e.g. TLC on constants extracted from the code)."""
        os.makedirs(REPLAYS, exist_ok=True)
        dig = hashlib.sha1(json.dumps(doc, sort_keys=True, default=str).encode()).hexdigest()[:12]
        path = os.path.join(REPLAYS, f"{self.pid}-{dig}.json")
        with open(path, "w") as f:
            json.dump({"property": self.pid, "why": why, **doc}, f, indent=1, default=str)
        log(f"  !! {why}")
        self.violations.append((why, path))

    # ---------------- evidence ----------------
    def write_evidence(self, level="model_checking"):
        os.makedirs(EVID, exist_ok=True)
        cov = {
            "states": self.states, "transitions": self.transitions,
            "traces_validated_against_impl": self.traces_validated,
            "samples": self.samples or [{"note": "no implementation trace in this run"}],
            "evaluations": max(self.evaluations, 1),
            "distinct_nontrivial": len(self.distinct),
            "rule": self.rule or ("a case is one trace recorded from the real ECAgent objects (spec->code walk of TLC's state graph, "
                                  "enumerated scenario, or seeded random history); distinct = distinct event sequences incl. observations "
                                  "(sha1), non-trivial = at least 2 events"),
            "events_validated": self.events,
            "tlc_runs": self.tlc_runs,
            "controls": self.controls,
            "trace_sources": self.sources,
            "known_findings_seen": self.known_seen,
        }
        if self.exhaustive is not None:
            cov["exhaustive"] = self.exhaustive
        cov.update(self.extra)
        doc = {"property_id": self.pid, "tier": self.tier, "seed": self.seed, "level": level, "coverage": cov,
               "assumptions": self.assumptions, "wall_s": round(time.time() - self.t0, 2),
               "violations": len(self.violations)}
        with open(os.path.join(EVID, f"{self.pid}.json"), "w") as f:
            json.dump(doc, f, indent=1, default=str)


def log(msg):
    print(msg, flush=True)


def main(argv=None):
    import argparse
    ap = argparse.ArgumentParser()
    ap.add_argument("pid")
    ap.add_argument("--tier", default=os.environ.get("VERIF_TIER", "quick"), choices=["quick", "thorough"])
    ap.add_argument("--replay")
    a = ap.parse_args(argv)
    seed = int(os.environ.get("VERIF_SEED", "20260927"))
    pid = a.pid.upper() if a.pid.lower() != "drift" else "drift"
    try:
        mod = importlib.import_module(f"harness.props.{pid.lower()}")
    except ImportError:
        traceback.print_exc()
        print(f"no check for {pid}")
        return 2
    ctx = Ctx(pid, a.tier, seed)
    log(f"== {pid} tier={a.tier} seed={seed} repo={os.environ.get('VERIF_REPO', '/repo')}")
    try:
        if a.replay:
            with open(a.replay) as f:
                doc = json.load(f)
            if doc.get("program") is None and doc.get("trace") is not None:
                # recorded from a source without a driver program (the repository's own tests under the tracer): re-judge it
                ctx.validate_traces(doc["trace_module"], doc["trace_cfg"], [doc["trace"]], None,
                                    source="replay of the recorded trace", expect_clean=False)
            else:
                mod.replay(ctx, doc)
        else:
            mod.run(ctx)
            if pid != "drift":
                ctx.write_evidence(getattr(mod, "LEVEL", "model_checking"))
    except tlc.MachineryError as e:
        print("MACHINERY FAILURE:", e)
        return 2
    except Exception:  # noqa: BLE001
        traceback.print_exc()
        print("MACHINERY FAILURE: unexpected exception in the harness")
        return 2
    for key, n in sorted(ctx.known_seen.items()):
        print(f"KNOWN-FINDING: property={pid} {key} {ctx.known[key]['what']} [{n} traces]")
    if ctx.violations:
        first = next((p for _, p in ctx.violations if p), None)
        for why, p in ctx.violations[:5]:
            if p:
                print(f"VIOLATION property={pid} replay={p}")
        if first is None:
            print(f"VIOLATION property={pid} replay=none")
        return 1
    log(f"== {pid} held on everything explored ({time.time() - ctx.t0:.1f}s)")
    return 0


if __name__ == "__main__":
    sys.exit(main())
