"""Drives real ECAgent grid worlds (DiscreteWorld / LineWorld / GridWorld) and records traces in the vocabulary of
spec/Grid_Trace.tla.  No expectation is computed here.

Programs:  ["grid", cls, [W, H, D]] first, then
  ["id_of", [x,y,z]] | ["get_cell", [x,y,z]] | ["neigh", [x,y,z], r, "moore"|"neumann", inc]
  ["add", name, kind, k] (kind: callable | constant | list | array | lookup) | ["mutate", name] | ["remove", name]
"""
import numpy as np

from . import common  # noqa: F401
from ECAgent.Core import Model, ComponentNotFoundError
from ECAgent.Environments import (DiscreteWorld, LineWorld, GridWorld, PositionComponent, ConstantGenerator,
                                  LookupGenerator, discrete_grid_pos_to_id, discreteGridPosToID)

SENT = [[-9, -9, -9]]
ALIAS = [False]      # drift runner: call the deprecated camelCase aliases instead of their replacements


def outcome(exc):
    if exc is None:
        return "ok"
    for cls, name in ((ComponentNotFoundError, "ComponentNotFoundError"), (IndexError, "IndexError"),
                      (TypeError, "TypeError"), (KeyError, "KeyError"), (ValueError, "ValueError")):
        if isinstance(exc, cls):
            return name
    return "Unexpected:" + type(exc).__name__


def _ints(seq):
    return [int(v) for v in seq]


def _colcount(pos, cells):
    """A plain module-level generator (no closure) whose value depends on the world's own table: position code + number of
    columns the table has when the layer is built."""
    return 100 * pos[0] + 10 * pos[1] + pos[2] + len(cells.columns)


class GridDriver:
    def __init__(self):
        self.events = []
        self.world = None
        self.sources = {}

    def pos_table(self):
        return [_ints(p) for p in self.world.cells["pos"]]

    def cols(self):
        out = []
        for name in self.world.cells.columns:
            if name == "pos":
                continue
            vals = [self.decode(name, i, v) for i, v in enumerate(self.world.cells[name])]
            out.append([str(name), vals])
        return out

    def decode(self, name, i, v):
        """Project a cell value to the specification's integer.  A value must come back with the Python type it was supplied
        with: text stays text (sources of kind "mixlist" supply str(n) for odd cells), numbers stay numbers."""
        try:
            want_text = getattr(self, "reps", {}).get(name) == "mix" and i % 2 == 1
            if getattr(self, "reps", {}).get(name) == "half":
                # n at the first cell, n + 0.5 elsewhere (as supplied)
                if i == 0:
                    return int(v) if (float(v) == int(v) and not isinstance(v, str)) else -99993
                x = float(v)
                return int(x - 0.5) if x - 0.5 == int(x - 0.5) else -99993
            if getattr(self, "reps", {}).get(name) == "bool0":
                # supplied as the bool False (trace value k): must come back as a bool that is false
                return self.kof.get(name, 0) if (isinstance(v, (bool, np.bool_)) and not v) else -99994
            if getattr(self, "reps", {}).get(name) == "f":
                # supplied as the double n + 0.1: must come back as exactly that double
                x = float(v)
                n = int(round(x - 0.1))
                return n if (x == n + 0.1 and not isinstance(v, (str, tuple, list))) else -99995
            if isinstance(v, str):
                return int(v) if want_text and v == str(int(v)) else -99997
            if want_text:
                return -99996
            if isinstance(v, (tuple, list)):
                # a list-like cell value k, k+1, ... is projected to its first element if it is that progression
                return int(v[0]) if list(v) == [v[0] + j for j in range(len(v))] and len(v) >= 2 else -99998
            return int(v)
        except Exception:  # noqa: BLE001
            return -99999

    def op_grid(self, cls, shape, wrap=False):
        W, H, D = shape
        m = Model()
        if cls == "discrete":
            self.world = DiscreteWorld(m, W, H, D, wrap_env=wrap)
            self.dims = 3
        elif cls == "line":
            self.world = LineWorld(m, W, wrap_env=wrap)
            self.dims = 1
        elif cls == "grid2d":
            self.world = GridWorld(m, W, H, wrap_env=wrap)
            self.dims = 2
        else:
            raise AssertionError(cls)
        m.set_environment(self.world)
        # worlds are populated differently: none, one or two agents standing on the first cell (cells and their neighbourhoods
        # do not depend on who lives there)
        GridDriver.nworlds = getattr(GridDriver, "nworlds", 0) + 1
        try:
            from ECAgent.Core import Agent
            for k in range(GridDriver.nworlds % 3):
                self.world.add_agent(Agent("resident%d" % k, m), 0, 0, 0)
        except Exception:  # noqa: BLE001
            pass
        self.shape = list(shape)
        self.events.append({"op": "new_grid", "cls": cls, "shape": list(shape), "pos_table": self.pos_table(),
                            "ncells": len(self.world.cells)})

    def op_id_of(self, c):
        W, H, D = self.shape
        x, y, z = c
        self.events.append({"op": "id_of", "c": list(c), "id": int((discreteGridPosToID if ALIAS[0] else discrete_grid_pos_to_id)(x, y, W, z, H))})

    def op_get_cell(self, c):
        exc = None
        pos, vals = [0, 0, 0], []
        try:
            x, y, z = c
            gc = self.world.getCell if ALIAS[0] else self.world.get_cell
            self.ngc = getattr(self, "ngc", 0) + 1
            # trailing coordinates that are 0 are left out the way callers do (in every kind of world, every other time)
            if y == 0 and z == 0 and (self.dims == 1 or self.ngc % 2):
                row = gc(x)
            elif z == 0 and (self.dims == 2 or self.ngc % 2):
                row = gc(x, y)
            else:
                row = gc(x, y, z)
            pos = _ints(row["pos"])
            table = self.pos_table()
            idx = table.index(pos) if pos in table else 0
            vals = [[str(k), self.decode(k, idx, row[k])] for k in row.index if k != "pos"]
        except Exception as e:  # noqa: BLE001
            exc = e
        self.events.append({"op": "get_cell", "c": list(c), "out": outcome(exc), "pos": pos, "vals": vals})

    def op_neigh(self, c, r, kind, inc):
        w = self.world
        table = self.pos_table()
        cid = table.index(list(c))
        fn = w.get_moore_neighbours if kind == "moore" else w.get_neumann_neighbours
        kind = "".join(list(kind))          # an equal string that is a different object (text parameters arrive like this)

        def pc(off):
            # the SAME component object for every query of this world, moved to the queried cell (like an agent's
            # position component after move / move_to); every third query uses a fresh object instead
            self.nq = getattr(self, "nq", 0) + 1
            if self.nq % 6 == 0:
                return PositionComponent(None, None, c[0] + off, c[1] + off, c[2] + off)
            if self.nq % 6 == 3:
                # the component of an agent that is not (or no longer) in this world keeps its coordinates
                from ECAgent.Core import Agent
                ghost = Agent("ghost", self.world.model)
                return PositionComponent(ghost, self.world.model, c[0] + off, c[1] + off, c[2] + off)
            if getattr(self, "_pc", None) is None:
                self._pc = PositionComponent(None, None, 0, 0, 0)
            self._pc.x, self._pc.y, self._pc.z = c[0] + off, c[1] + off, c[2] + off
            return self._pc

        def spoil(res):
            # the caller does what callers do with a list they were given: reorders it and takes an element out
            try:
                res.reverse()
                del res[:1]
            except Exception:  # noqa: BLE001
                pass

        def tup(call):
            try:
                res = call()
                out = [_ints(p) for p in res]
                spoil(res)
                return out
            except Exception:  # noqa: BLE001
                return SENT

        def ids(call):
            try:
                res = call()
                out = _ints(res)
                spoil(res)
                return out
            except Exception:  # noqa: BLE001
                return [-9]

        self.nneigh = getattr(self, "nneigh", 0) + 1
        if self.nneigh % 2 == 1:
            try:
                fn(tuple(c), r, inc, str)          # an unsupported return type: rejected (TypeError), and forgotten
            except Exception:  # noqa: BLE001
                pass
        tups = [tup(lambda: fn(cid, r, inc, tuple)), tup(lambda: fn(tuple(c), r, inc, tuple)),
                tup(lambda: fn(pc(0.0), r, inc, tuple)), tup(lambda: fn(pc(0.25), r, inc, tuple)),
                tup(lambda: fn(pc(0.75), r, inc, tuple)), tup(lambda: fn(pc(0.9999999), r, inc, tuple)),
                tup(lambda: w.get_neighbours(cid, r, inc, tuple, kind)),
                tup(lambda: w.get_neighbours(pc(0.5), r, inc, tuple, kind)),
                tup(lambda: w.get_neighbours(tuple(c), radius=r, incl_center=inc, ret_type=tuple, mode=kind))]
        idl = [ids(lambda: fn(cid, r, inc)), ids(lambda: fn(tuple(c), r, inc, int)), ids(lambda: fn(pc(0.75), r, inc, int)),
               ids(lambda: w.get_neighbours(tuple(c), r, inc, int, kind)), ids(lambda: w.get_neighbours(cid, r, inc, mode=kind)),
               ids(lambda: w.get_neighbours(pc(0.25), r, inc, int, kind))]
        self.events.append({"op": "neigh", "c": list(c), "r": r, "kind": kind, "inc": bool(inc), "tup": tups, "ids": idl})

    def op_add(self, name, kind, k):
        w = self.world
        n = len(w.cells)
        W, H, D = [max(e, 1) for e in self.shape]
        vals = []
        if kind == "callable":
            # the same function in the forms user code writes it: plain, with the loop variable bound as a default, as a partial,
            # as an object with __call__ - all are called as generator(pos, cells)
            form = getattr(self, "ncall", 0) % 4
            self.ncall = getattr(self, "ncall", 0) + 1
            if form == 0:
                gen = lambda pos, cells: 100 * pos[0] + 10 * pos[1] + pos[2] + k  # noqa: E731
            elif form == 1:
                gen = lambda pos, cells, k=k, scale=1: (100 * pos[0] + 10 * pos[1] + pos[2] + k) * scale  # noqa: E731
            elif form == 2:
                import functools

                def _g(pos, cells, off=0):
                    return 100 * pos[0] + 10 * pos[1] + pos[2] + off
                gen = functools.partial(_g, off=k)
            else:
                class _G:
                    def __call__(self, pos, cells):
                        return 100 * pos[0] + 10 * pos[1] + pos[2] + k
                gen = _G()
        elif kind == "colcount":
            k = len(w.cells.columns)        # what the generator will see (an input of the call, logged as the layer's offset)
            gen = _colcount
        elif kind == "halfcall":
            # a distance-decay style generator: a whole number (an int) at the first cell, fractions (n + 0.5) everywhere else
            first = [True]

            def gen(pos, cells, first=first):
                v = 100 * pos[0] + 10 * pos[1] + pos[2] + k
                if tuple(pos) == (0, 0, 0):
                    return v
                return v + 0.5
        elif kind == "bigcall":
            # a generator whose arithmetic passes through numbers far beyond 64 bits (coordinates are plain integers)
            gen = lambda pos, cells: ((100 * pos[0] + 10 * pos[1] + pos[2] + k) * 10 ** 19 + 7) // 10 ** 19  # noqa: E731
        elif kind == "fconst":
            # a constant that is falsy (the flag False): every cell holds exactly that value
            gen = ConstantGenerator(False)
        elif kind == "tconst3":
            # a list-like constant (an RGB triple) whose length has nothing to do with the number of cells
            gen = ConstantGenerator((k, k + 1, k + 2))
        elif kind == "halve":
            if name not in w.cells.columns or getattr(self, "reps", {}).get(name) is not None \
                    or not all(isinstance(v, (int, np.integer)) and not isinstance(v, (bool, np.bool_)) for v in w.cells[name]):
                return
            # the generator reads the component's CURRENT value of the cell it is asked for
            ids = {tuple(p): i for i, p in enumerate(w.cells["pos"])}
            gen = lambda pos, cells: int(cells[name][ids[tuple(pos)]]) // 2  # noqa: E731
        elif kind == "constant":
            gen = ConstantGenerator(k)
        elif kind == "tconst":
            # a constant that is itself list-like (an RGB triple, a vector): every cell holds the WHOLE value.
            # As long as the number of cells: pandas would spread it over the cells if it were assigned directly.
            gen = ConstantGenerator(tuple(k + j for j in range(max(n, 2))))
        elif kind == "list":
            vals = [7 * (i + 1) + k for i in range(n)]
            gen = list(vals)
            self.sources[name] = gen
        elif kind == "mixlist":
            # numbers and text in one supplied list: every element must be stored as it is
            vals = [7 * (i + 1) + k for i in range(n)]
            gen = [v if i % 2 == 0 else str(v) for i, v in enumerate(vals)]
            self.sources[name] = gen
        elif kind == "tuplist":
            # a supplied list of equal-length tuples (one coordinate pair per cell)
            vals = [7 * (i + 1) + k for i in range(n)]
            gen = [(v, v + 1) for v in vals]
            self.sources[name] = gen
        elif kind == "array":
            vals = [7 * (i + 1) + k for i in range(n)]
            gen = np.array(vals)
            self.sources[name] = gen
        elif kind == "farray":
            # a float64 array whose values are not representable in a narrower float type
            vals = [7 * (i + 1) + k for i in range(n)]
            gen = np.array([v + 0.1 for v in vals], dtype=np.float64)
            self.sources[name] = gen
        elif kind == "roarray":
            # a read-only view of a buffer the caller keeps (and later changes through the writable base)
            vals = [7 * (i + 1) + k for i in range(n)]
            base = np.array(vals)
            gen = base.view()
            gen.flags.writeable = False
            self.sources[name] = base
        elif kind == "lookup":
            # a table of the world's dimensionality
            if self.dims == 1:
                table = [100 * x + k for x in range(W)]
            elif self.dims == 2:
                table = [[100 * x + 10 * y + k for y in range(H)] for x in range(W)]
            else:
                table = [[[100 * x + 10 * y + z + k for z in range(D)] for y in range(H)] for x in range(W)]
            if self.dims == 3 and k % 3 == 2:
                # the table as a numpy array whose axes were rearranged so that x comes first (a transposed view of z-y-x data)
                zyx = np.array([[[100 * x + 10 * y + z + k for x in range(W)] for y in range(H)] for z in range(D)])
                table = zyx.transpose(2, 1, 0)
            # the same generator object is re-used for every lookup component of this world; its table is replaced in between
            if getattr(self, "lookup", None) is None:
                self.lookup = LookupGenerator(table)
            elif k % 2:
                self.lookup.table = table
            else:
                self.lookup = LookupGenerator(table)
            gen = self.lookup
        else:
            raise AssertionError(kind)
        exc = None
        try:
            (w.addCellComponent if ALIAS[0] else w.add_cell_component)(name, gen)
        except Exception as e:  # noqa: BLE001
            exc = e
        if exc is None:
            self.kof = getattr(self, "kof", {})
            self.kof[name] = k
            self.reps = getattr(self, "reps", {})
            self.reps[name] = {"mixlist": "mix", "farray": "f", "fconst": "bool0", "halfcall": "half"}.get(kind)
        self.events.append({"op": "add_cell_component", "name": name, "kind": {"roarray": "array", "farray": "array", "tconst": "constant", "tconst3": "constant", "fconst": "constant", "halfcall": "callable", "colcount": "callable", "bigcall": "callable", "mixlist": "list", "tuplist": "list"}.get(kind, kind), "k": k, "vals": vals, "dims": self.dims,
                            "out": outcome(exc), "cols": self.cols()})

    def op_mutate(self, name):
        src = self.sources.get(name)
        if src is None:
            return
        for i in range(len(src)):
            src[i] = -1000 - i
        self.events.append({"op": "mutate_source", "name": name, "cols": self.cols()})

    def op_remove(self, name):
        exc = None
        try:
            self.world.remove_cell_component(name)
        except Exception as e:  # noqa: BLE001
            exc = e
        self.events.append({"op": "remove_cell_component", "name": name, "out": outcome(exc), "cols": self.cols(),
                            "pos_table": self.pos_table()})


def run_program(prog):
    d = GridDriver()
    for op in prog:
        getattr(d, "op_" + op[0])(*op[1:])
    return d.events


def classes_for(shape):
    W, H, D = shape
    out = ["discrete"]
    if W >= 1 and H == 0 and D == 0:
        out.append("line")
    if W >= 1 and H >= 1 and D == 0:
        out.append("grid2d")
    return out


def cells(shape):
    W, H, D = [max(e, 1) for e in shape]
    return [[x, y, z] for z in range(D) for y in range(H) for x in range(W)]


def probe(shape):
    W, H, D = [max(e, 1) for e in shape]
    return [[x, y, z] for z in range(-1, D + 1) for y in range(-1, H + 1) for x in range(-1, W + 1)]


def shapes(max_ext):
    return [[w, h, d] for w in range(max_ext + 1) for h in range(max_ext + 1) for d in range(max_ext + 1)]


def c09_programs(max_ext):
    out = []
    for s in shapes(max_ext):
        for cls in classes_for(s):
            lk = ("list", "mixlist", "tuplist")[len(out) % 3]          # plain / mixed numbers and text / one tuple per cell
            prog = [["grid", cls, s, (sum(s) + len(out)) % 2 == 1], ["add", "p", ("callable", "halfcall")[len(out) % 2], 3], ["add", "q", lk, 1]]
            prog += [["id_of", c] for c in cells(s)]
            prog += [["get_cell", c] for c in probe(s)]
            # the row must be the cell's CURRENT row: look every cell up again after components were removed / replaced
            prog += [["remove", "p"]] + [["get_cell", c] for c in cells(s)]
            # a layer built from an array the caller keeps using as a scratch buffer
            prog += [["add", "a", ("array", "farray")[len(out) % 2], 2], ["mutate", "a"]] + [["get_cell", c] for c in cells(s)]
            if cls == "discrete":
                # two layers from one lookup generator whose table is replaced in between
                prog += [["add", "l1", "lookup", 1], ["add", "l2", "lookup", 3]] + [["get_cell", c] for c in cells(s)]
            prog += [["add", "q", ("constant", "tconst", "tconst3")[len(out) % 3], 8], ["add", "r", "callable", 1]] + [["get_cell", c] for c in cells(s)]
            prog += [["remove", "q"], ["remove", "nope"]] + [["get_cell", c] for c in cells(s)]
            prog += [["add", "r", "halve", 0]] + [["get_cell", c] for c in cells(s)]
            out.append(prog)
    return out


def c10_programs(max_ext, max_r, chunk=40):
    out = []
    for s in shapes(max_ext):
        diam = sum(max(e, 1) - 1 for e in s)
        for cls in classes_for(s):
            ops = []
            for c in cells(s):
                for r in range(0, min(max_r, diam + 2) + 1):
                    for kind in ("moore", "neumann"):
                        for inc in (False, True):
                            ops.append(["neigh", c, r, kind, inc])
            for i in range(0, len(ops), chunk):
                out.append([["grid", cls, s]] + ops[i:i + chunk])
    return out


def c11_random_program(rng, max_ext=3, length=10):
    s = [rng.randint(0, max_ext) for _ in range(3)]
    if rng.random() < 0.3:
        s[2] = 0
        if rng.random() < 0.5:
            s[1] = 0
    cls = rng.choice(classes_for(s))
    prog = [["grid", cls, s, rng.random() < 0.3]]
    names = ["p", "q", "r", "s t", "pos2"]
    for _ in range(length):
        r = rng.random()
        if r < 0.55:
            prog.append(["add", rng.choice(names), rng.choice(["callable", "callable", "bigcall", "halfcall", "colcount", "colcount", "constant", "fconst", "tconst", "tconst3", "list", "mixlist", "tuplist", "array", "farray", "roarray", "lookup", "lookup", "halve", "halve"]), rng.choice([0, 3, 5, -4])])
        elif r < 0.7:
            prog.append(["mutate", rng.choice(names)])
        elif r < 0.9:
            prog.append(["remove", rng.choice(names + ["nope"])])
        else:
            cs = cells(s)
            prog.append(["get_cell", rng.choice(cs)])
    prog += [["get_cell", c] for c in cells(s)[:6]]
    return prog


def program_from_walk(walk, shape, cls):
    prog = [["grid", cls, list(shape)]]
    for name, args in walk:
        if name == "AddSrc":
            n, kind, k = args
            prog.append(["add", n, ("list", "array", "roarray")[len(prog) % 3] if kind == "list" else kind, k])
        elif name == "AddCellComponent":
            n, d = args
            if d["kind"] == "list":
                # the spec's list source is vals[i] = 7*i + k (1-based i); the driver builds the same list from k
                prog.append(["add", n, ("list", "array")[len(prog) % 2], (d["vals"][0] - 7) if d["vals"] else 0])
            else:
                prog.append(["add", n, d["kind"], d["k"]])
        elif name == "MutateCallerSource":
            prog.append(["mutate", args[0]])
        elif name in ("RemoveCellComponent", "RemoveRejected"):
            prog.append(["remove", args[0]])
        else:
            raise AssertionError(name)
    return prog


def tamper(trace, rng):
    ks = [k for k, e in enumerate(trace) if e["op"] in ("neigh", "get_cell", "id_of", "add_cell_component")]
    if not ks:
        return None
    k = rng.choice(ks)
    e = trace[k]
    if e["op"] == "neigh":
        if e["tup"][0]:
            e["tup"][0] = e["tup"][0][:-1]
        else:
            e["tup"][0] = [[0, 0, 0]]
    elif e["op"] == "get_cell":
        if e["out"] == "ok":
            e["out"] = "IndexError"
        else:
            e["out"] = "ok"
    elif e["op"] == "id_of":
        e["id"] += 1
    else:
        if e["cols"] and e["cols"][0][1]:
            e["cols"][0][1][0] += 1
        else:
            return None
    return trace
