"""Drives real ECAgent tag libraries and records traces for spec/Tags_Trace.tla.  No expectation is computed here.

Program: {"libs": [names; "G" = the module-level global library], "ops": [[lib, tag_name], ...]}
Programs that use "G" are executed in a fresh interpreter (the global library is process-wide state).
A program with "cold": true makes the FIRST add_tag of every library before any other operation was ever called on that
library (no itemize / len / lookup in between: state that a library creates lazily does not exist yet); a library is observed
only from its first add_tag on, and "is this name the library object's own attribute?" is answered from the driver's own record
of the adds that succeeded instead of from itemize().
"""
import concurrent.futures as cf
import json
import os
import subprocess
import sys

from . import common

ORDINARY = ["a", "b", "c", "tag1", "Sheep"]
LOCAL_RESERVED = ["add_tag", "itemize", "get_tag_name", "_tag_names", "_tag_counter", "__class__", "__dict__", "__len__",
                  "__init__", "__doc__", "__module__", "__weakref__", "__eq__", "__repr__", "__hash__", "__str__", "__getattribute__"]
GLOBAL_RESERVED = ["TagLibrary", "DuplicateTagError", "TagNotFoundError", "_module_library", "__name__", "__getattr__"]
ARBITRARY = ["", "x y", "1abc", "a.b", "NONE ", "none", "_beta", "__delta__", "_x", "__slots__", "\uff21", "A", "x\u00b2", "\u2126",
             "%s", "50%", "{0}", "%(x)s", "{tag_id}", "a\nb", "\\",
             "N", "ON", "NO", "ONE", "in", "in_", "class", "class_", "None", "None_", "is", "_in", "NONE_"]


import types  # noqa: E402

_PLAIN_MODULE = types.ModuleType("plain")       # what every module object resolves by itself (__name__, __doc__, __class__, ...)
BUILTIN_NAMES = ["enumerate", "str", "len", "super", "isinstance", "hasattr", "globals", "int", "list"]


def run_program(prog):
    if "G" in prog["libs"]:
        return run_in_child([prog])[0]
    return _run(prog)


def _run(prog):
    import ECAgent.Tags as Tags
    libs = {}
    used = []
    for _lib, _tag in prog["ops"]:        # every name the history will use is looked up after every step, also before it is added
        if _tag not in used:
            used.append(_tag)
    events = []

    def lib_names(name):
        return [n for n, _ in (Tags.itemize() if name == "G" else libs[name].itemize())]

    cold = bool(prog.get("cold"))
    warm = []                     # cold programs: the libraries that had their first add_tag
    added_ok = {}

    def reserved(name, tag):
        """Does `tag` already resolve on the library object (without being one of its tags)?"""
        try:
            if (tag == "NONE" or tag in added_ok.get(name, ())) if cold else (tag in lib_names(name)):
                return False
            if name == "G":
                return tag in vars(Tags) or hasattr(Tags.TagLibrary(), tag)
            return hasattr(libs[name], tag)
        except Exception:  # noqa: BLE001
            return False

    def err(e):
        if isinstance(e, Tags.TagNotFoundError):
            return "TagNotFoundError"
        if isinstance(e, Tags.DuplicateTagError):
            return "DuplicateTagError"
        if isinstance(e, AttributeError):
            return "AttributeError"
        return "Unexpected:" + type(e).__name__

    def obs():
        out = []
        for name in (warm if cold else libs):
            g = name == "G"
            o = {"lib": name, "global": g}
            try:
                items = Tags.itemize() if g else libs[name].itemize()
                o["itemize"] = [[str(n), int(i)] for n, i in items]
                o["len"] = len(items) if g else len(libs[name])
                items.reverse()               # the caller may edit the list it was given
                del items[:1]
            except Exception as e:  # noqa: BLE001
                o["itemize"] = [["!" + err(e), -1]]
                o["len"] = -1
            by_id = []
            for i in range(-1, max(o["len"], 0) + 2):
                try:
                    r = Tags.get_tag_name(i) if g else libs[name].get_tag_name(i)
                    r = r if isinstance(r, str) else "!nonstr"
                except Exception as e:  # noqa: BLE001
                    r = "!" + err(e)
                by_id.append([i, r])
            o["by_id"] = by_id
            by_name = []
            try:
                current = lib_names(name)
            except Exception:  # noqa: BLE001
                current = []
            for n in used:
                if (n in vars(Tags) or hasattr(_PLAIN_MODULE, n) or (n in vars(Tags.TagLibrary()) and n not in current)) if g \
                        else reserved(name, n):
                    continue        # resolves to the library object's (the module object's) own attribute: not a tag lookup
                try:
                    r = getattr(Tags, n) if g else getattr(libs[name], n)
                    r = ["id", r] if type(r) is int else ["err", "nonint"]
                except Exception as e:  # noqa: BLE001
                    r = ["err", err(e)]
                by_name.append([n, r])
            o["by_name"] = by_name
            out.append(o)
        return out

    for name in prog["libs"]:
        libs[name] = None if name == "G" else Tags.TagLibrary()
        events.append({"op": "new_lib", "lib": name, "cold": cold, "obs": obs()})
    for name, tag in prog["ops"]:
        res = reserved(name, tag)
        exc = None
        try:
            if name == "G":
                Tags.add_tag(tag)
            else:
                libs[name].add_tag(tag)
        except Exception as e:  # noqa: BLE001
            exc = e
        if tag not in used:
            used.append(tag)
        if exc is None:
            added_ok.setdefault(name, []).append(tag)
        if name not in warm:
            warm.append(name)
        events.append({"op": "add_tag", "lib": name, "name": tag, "reserved": bool(res), "cold": cold,
                       "out": "ok" if exc is None else err(exc), "obs": obs()})
    return events


def _child(progs):
    env = dict(os.environ)
    env["VERIF_REPO"] = common.REPO
    env.setdefault("PYTHONHASHSEED", "0")
    code = ("import sys, json; sys.path.insert(0, %r); from harness.drivers import tags; "
            "print(json.dumps([tags._run(p) for p in json.load(sys.stdin)]))" % os.path.dirname(os.path.dirname(os.path.dirname(os.path.abspath(__file__)))))
    out = []
    for p in progs:     # one interpreter per history: the global library starts fresh
        r = subprocess.run([sys.executable, "-c", code], input=json.dumps([p]), capture_output=True, text=True, env=env, timeout=120)
        if r.returncode != 0:
            raise RuntimeError("tags child failed: " + r.stderr[-800:])
        out.append(json.loads(r.stdout)[0])
    return out


def run_in_child(progs, workers=16):
    if not progs:
        return []
    chunks = [progs[i::workers] for i in range(workers)]
    with cf.ThreadPoolExecutor(max_workers=workers) as ex:
        res = list(ex.map(_child, chunks))
    out = [None] * len(progs)
    for w, r in enumerate(res):
        for k, ev in enumerate(r):
            out[w + k * workers] = ev
    return out


def run_programs(progs):
    """In-process for local-only programs, fresh interpreters (in parallel) for programs using the global library."""
    gi = [i for i, p in enumerate(progs) if "G" in p["libs"]]
    res = [None] * len(progs)
    for i, ev in zip(gi, run_in_child([progs[i] for i in gi])):
        res[i] = ev
    for i, p in enumerate(progs):
        if res[i] is None:
            res[i] = _run(p)
    return res


_DISCOVERED = None


def discovered_names():
    """Attribute names of a live, used library object and of its class (and of the module, for the global library) that the fixed
    lists above do not contain - "names equal to the library's own attribute and method names" read off the implementation under
    test, so that an attribute the library creates lazily is offered as a tag name too.  Chosen from the public objects, never
    from an expected result."""
    global _DISCOVERED
    if _DISCOVERED is None:
        import ECAgent.Tags as Tags
        lib = Tags.TagLibrary()
        try:
            lib.add_tag("zz_probe")
            lib.itemize()
            lib.get_tag_name(0)
            len(lib)
            getattr(lib, "zz_probe")
        except Exception:  # noqa: BLE001
            pass
        loc = (set(vars(lib)) | set(vars(type(lib)))) - {"zz_probe", "NONE"}
        glob = {n for n in vars(Tags) if isinstance(n, str)}
        known = set(LOCAL_RESERVED) | set(GLOBAL_RESERVED) | set(ARBITRARY) | set(BUILTIN_NAMES) | set(ORDINARY)
        _DISCOVERED = (sorted(n for n in loc if isinstance(n, str) and n not in known), sorted(glob - known - loc))
    return _DISCOVERED


def random_program(rng, use_global, length=10, cold=False):
    libs = ["L1", "L2"] + (["G"] if use_global else [])
    if rng.random() < 0.3:
        libs = libs[1:]
    dloc, dglob = discovered_names()
    special = LOCAL_RESERVED + dloc * 3 + ((GLOBAL_RESERVED + BUILTIN_NAMES + dglob) if use_global else [])
    pool = ORDINARY * 3 + ["NONE"] + ARBITRARY + special
    ops = []
    for k in range(length):
        ops.append([rng.choice(libs), rng.choice(special if (cold and k < len(libs) + 1 and rng.random() < 0.7) else pool)])
    prog = {"libs": libs, "ops": ops}
    if cold:
        prog["cold"] = True
    return prog


def program_from_walk(walk):
    libs = ["L1", "L2", "G"]
    ops = []
    for name, args in walk:
        if name in ("Add", "AddRejected", "OfferAdd", "OfferRejected"):
            ops.append([args[0], args[1]])
        else:
            raise AssertionError(name)
    return {"libs": libs, "ops": ops}


def tamper(trace, rng):
    ks = [k for k, e in enumerate(trace) if e["op"] == "add_tag" and e["obs"]]
    if not ks:
        return None
    k = rng.choice(ks)
    o = trace[k]["obs"][0]
    if rng.random() < 0.5:
        o["len"] += 1
    elif len(o["itemize"]) > 1:
        o["itemize"][-1][1] += 1
    else:
        o["len"] -= 1
    return trace
