"""Drives ECAgent.Batching (ParameterList, batch_run, grid_search) and records traces for spec/Batch_Trace.tla.
Fixture models are self-identifying; no expectation is computed here.

C14 programs: [["init", [[name, shape]..], badkey] | ["init_none"], then ["declare", name, shape, namekind] | ["remove", name] | ["build"] ...]
C15 programs: [["batch_run", grid, reps, limit, two, procs, failstop]]      grid = [[name, [ints]]..] over stop/cstart/cfreq/d
C16 programs: [["grid_search", grid, reps, mode, procs, scale, table]]       grid over x/y; table[i][r] = spec-level score
"""
import time
from fractions import Fraction

import numpy as np

from . import common  # noqa: F401
from ECAgent.Core import Model, System
from ECAgent.Collectors import Collector
from ECAgent.Batching import ParameterList, batch_run, grid_search, ScoreMode

SHAPES = {
    "scalar5": lambda: 5, "float35": lambda: 3.5, "none": lambda: None, "str_xy": lambda: "xy", "str_empty": lambda: "",
    "empty": lambda: [], "list1": lambda: [1], "list11": lambda: [1, 1], "list12": lambda: [1, 2],
    "list321": lambda: [3, 2, 1], "tuple34": lambda: (3, 4), "range2": lambda: range(2), "range0": lambda: range(0),
    "np78": lambda: np.array([7, 8]), "strs": lambda: ["ab", "c"],
    "list_n1": lambda: [None, 1], "list_0f": lambda: [0, False, 2], "tuple_e": lambda: ("", "x"),
    "list_tt": lambda: [(1, 2), (3, 4)], "list_mixnum": lambda: [0.5, 1, 2],
}
BIG = 999999


def token(v):
    if v is None:
        return "None"
    if isinstance(v, str):
        return "s" + v
    if isinstance(v, (bool,)):
        return "b%d" % v
    if isinstance(v, (int, np.integer)):
        return "i%d" % int(v)
    if isinstance(v, float):
        return "f" + repr(v)
    if isinstance(v, tuple):
        return "t" + "_".join(token(x) for x in v)
    if isinstance(v, list):
        return "l" + "_".join(token(x) for x in v)
    return "?" + type(v).__name__


def outcome(exc):
    if exc is None:
        return "ok"
    if isinstance(exc, (StopIteration, RuntimeError)):
        return type(exc).__name__
    if type(exc).__name__ in ("DuplicateAgentError", "AgentNotFoundError", "ComponentNotFoundError", "ModelCompleteError",
                              "SystemNotFoundError"):
        return type(exc).__name__
    for cls, name in ((Boom, "Boom"), (KeyError, "KeyError"), (AttributeError, "AttributeError"), (TypeError, "TypeError"),
                      (ValueError, "ValueError")):
        if isinstance(exc, cls):
            return name
    return "Unexpected:" + type(exc).__name__


# ------------------------------------------------------------------------------------------------ C14
def _combos(result):
    return [[[str(k), token(v)] for k, v in d.items()] for d in result]


def run_params(prog):
    events = []
    pl = None
    twin = None
    for op in prog:
        k = op[0]
        exc = None
        if k == "init":
            _, decl, badkey = op
            d = {}
            for name, shape in decl:
                d[name] = SHAPES[shape]()
            if badkey:
                d[5] = [1, 2]
            try:
                pl = ParameterList(d)
                twin = ParameterList(d)        # a second list declared from the very same dictionary ...
                d["late"] = [9, 8]             # ... which the caller goes on using afterwards
            except Exception as e:  # noqa: BLE001
                exc = e
            events.append({"op": "pl_init", "decl": [list(x) for x in decl], "badkey": bool(badkey), "out": outcome(exc)})
            if pl is None:
                break
        elif k == "init_none":
            pl = ParameterList()
            twin = ParameterList()
            events.append({"op": "pl_init", "decl": [], "badkey": False, "out": "ok"})
        elif k == "declare":
            _, name, shape, namekind = op
            key = "".join(list(name)) if namekind == "str" else (7 if name == "7" else (1, 2))
            try:
                pl.add_parameter(key, SHAPES[shape]())
            except Exception as e:  # noqa: BLE001
                exc = e
            events.append({"op": "declare", "name": str(name), "shape": shape, "namekind": namekind, "out": outcome(exc)})
        elif k == "remove":
            try:
                pl.remove_parameter("".join(list(op[1])))      # an equal string built at run time, not the same object
            except Exception as e:  # noqa: BLE001
                exc = e
            events.append({"op": "remove_param", "name": op[1], "out": outcome(exc)})
        elif k == "build":
            res, res2 = [], []
            try:
                r1 = pl.build()
                res = _combos(r1)
                for d in r1:          # the caller may modify what it got
                    d.clear()
                    d["zz"] = 0
                r1.append({"junk": 1})
                res2 = _combos(pl.build())
                res3 = _combos(twin.build())
            except Exception as e:  # noqa: BLE001
                exc = e
                res3 = []
            events.append({"op": "build", "out": outcome(exc), "res": res, "res2": res2, "twin": res3})
        else:
            raise AssertionError(op)
    return events


def random_params_program(rng, length=8):
    names = ["a", "b", "c", "dd"]
    shapes = sorted(SHAPES)
    prog = []
    if rng.random() < 0.5:
        ns = rng.sample(names, rng.randint(0, 3))
        prog.append(["init", [[n, rng.choice(shapes)] for n in ns], rng.random() < 0.08])
    else:
        prog.append(["init_none"])
    if prog[0][0] == "init" and prog[0][2]:
        return prog
    for _ in range(length):
        r = rng.random()
        if r < 0.45:
            prog.append(["declare", rng.choice(names), rng.choice(shapes), "str"])
        elif r < 0.5:
            prog.append(["declare", rng.choice(["7", "t"]), rng.choice(shapes), "nonstr"])
        elif r < 0.7:
            prog.append(["remove", rng.choice(names)])
        else:
            prog.append(["build"])
    prog.append(["build"])
    return prog


def params_program_from_walk(walk, salt=0):
    prog = [["init_none"]]
    first = True
    pending = []
    for name, args in walk:
        if name in ("OfferDeclare", "Declare"):
            if first and salt % 2:
                pending.append([args[0], args[1]])      # declared through the constructor
                continue
            prog.append(["declare", args[0], args[1], "str"])
        else:
            if pending:
                prog[0] = ["init", pending, False]
                pending = []
            first = False
            if name in ("OfferDeclareRejected", "DeclareRejected"):
                prog.append(["declare", args[0], "list12", "str"])
            elif name in ("OfferRemove", "RemoveParam", "OfferRemoveRejected", "RemoveParamRejected"):
                prog.append(["remove", args[0]])
            else:
                raise AssertionError(name)
        prog.append(["build"]) if not pending else None
    if pending:
        prog[0] = ["init", pending, False]
    prog.append(["build"])
    return prog


# ------------------------------------------------------------------------------------------------ C15
class Boom(Exception):
    """The fixture's own error: like many user exceptions it takes exactly one argument (and pickles fine as it is)."""

    def __init__(self, where):
        super().__init__(where)


FAILSTOP = -1
FAILKIND = "boom"
# what a failing execution raises: the fixture's own exception, or one of the library's documented errors provoked the ordinary way
FAILNAMES = {"boom": "Boom", "dup": "DuplicateAgentError", "notfound": "AgentNotFoundError", "comp": "ComponentNotFoundError",
             "complete": "ModelCompleteError", "nosys": "SystemNotFoundError", "stopiter": "StopIteration"}


def _raise_failure(model):
    from ECAgent.Core import Agent, Component
    if FAILKIND == "dup":
        model.environment.add_agent(Agent("twice", model))
        model.environment.add_agent(Agent("twice", model))
    elif FAILKIND == "notfound":
        model.environment.remove_agent("nobody")
    elif FAILKIND == "comp":
        Agent("bare", model).remove_component(Component)
    elif FAILKIND == "nosys":
        model.systems.remove_system("no such system")
    elif FAILKIND == "complete":
        other = Model()
        other.complete()
        other.systems.execute_systems(throw_error=True)
    elif FAILKIND == "stopiter":
        next(x for x in model.environment if x.id == "nobody")       # the usual idiom; nothing matches
    raise Boom("fixture")


class Stopper(System):
    def __init__(self, model, stop, d, fail, burn=-1, recargs=None):
        super().__init__("stopper", model, priority=0)
        self.stop, self.d, self.fail, self.burn, self.recargs = stop, d, fail, burn, recargs

    def execute(self):
        t = self.model.systems.timestep
        if t == 0:
            if self.d:
                time.sleep(self.d / 1000.0)
            if self.fail:
                _raise_failure(self.model)
        if t == self.burn and self.recargs is not None:
            # end of the burn-in phase: the collector registered as "c1" is discarded, a fresh one takes its name from the next step on
            sig, cfreq = self.recargs
            self.model.systems.remove_system("c1")
            self.model.systems.add_system(Rec("c1", self.model, sig, t + 1, cfreq))
        if t == self.stop:
            self.model.complete()


class Rec(Collector):
    def __init__(self, id, model, sig, start, frequency):
        super().__init__(id, model, start=start, frequency=frequency)
        self.sig = sig

    def collect(self):
        self.records.append([self.sig, self.model.systems.timestep])


W_VALUES = {11: 1, 12: 2, 13: 3, 20: 0.5, 21: 2.0, 30: (2, 3), 31: (4, 1)}     # code -> value; a value keeps type and content


def wcode(w):
    for c, v in W_VALUES.items():
        if type(v) is type(w) and v == w:
            return c
    return 99


KNOB = [0]          # a module-level setting of the program, part of every run's signature; changed between two batches
LABELS = ["dry", "ab", "", "x", "wet season", None]      # the position of a label in this list is part of a run's signature


class BatchModel(Model):
    def __init__(self, stop=3, cstart=0, cfreq=1, d=0, burn=-1, label="dry", w=None):
        super().__init__()
        if label not in LABELS:          # a text parameter must arrive as the very value that was declared
            raise Boom("fixture")
        fail = stop == FAILSTOP
        if fail and d % 2 == 1:
            _raise_failure(self)
        sig = 1000000 * KNOB[0] + 100000 * (0 if w is None else wcode(w)) + 10000 * LABELS.index(label) + 1000 * stop + 100 * cstart + 10 * cfreq + d
        self.systems.add_system(Stopper(self, stop, d, fail, burn, (sig, cfreq)))
        self.systems.add_system(Rec("c1", self, sig, cstart, cfreq))
        self.systems.add_system(Rec("c2", self, sig, cstart, cfreq + 1))


def _norm_run(data):
    if isinstance(data, dict):
        return [[str(k), [list(map(int, r)) for r in v]] for k, v in sorted(data.items())]
    return [["c1", [list(map(int, r)) for r in data]]]


def run_batch(prog):
    global FAILSTOP, FAILKIND
    events = []
    shared = None          # programs with several calls use ONE ParameterList, edited between the calls with add/remove_parameter
    selobj = None
    for op in prog:
        _, grid, reps, limit, two, procs, failstop = op[:7]
        failkind = op[7] if len(op) > 7 else "boom"
        FAILSTOP = failstop
        FAILKIND = failkind
        scalar = {e[0] for e in grid if len(e) > 2 and e[2] == "scalar" and len(e[1]) == 1}    # declared as the bare value, not a list
        grid = [[e[0], e[1]] for e in grid]

        def real(n, x):
            return W_VALUES[x] if n == "w" else x

        def declared_value(n, v):
            return real(n, v[0]) if n in scalar else [real(n, x) for x in v]
        if len(prog) > 1:
            if shared is None:
                shared = ParameterList({n: [real(n, x) for x in v] for n, v in grid})
                declared = [n for n, _ in grid]
            else:
                want = [n for n, _ in grid]
                for n in [x for x in declared if x not in want]:
                    shared.remove_parameter(n)
                for n, v in grid:
                    if n not in declared:
                        shared.add_parameter(n, [real(n, x) for x in v])
                declared = [n for n in declared if n in want] + [n for n in want if n not in declared]
                grid = [[n, dict((a, b) for a, b in grid)[n]] for n in declared]     # declaration order of the shared list
            params = shared
        else:
            params = {n: declared_value(n, v) for n, v in grid}
            if (reps + len(grid)) % 3 == 0:
                decoy = ParameterList()                  # another list of the same program, created empty as well ...
                decoy.add_parameter("zz", [1, 2])        # ... and filled with something else
                built = ParameterList()                  # declared parameter by parameter
                for n, v in grid:
                    built.add_parameter(n, declared_value(n, v))
                params = built
            elif procs % 2 == 0:
                sibling = ParameterList(params)          # another list declared from the same dictionary ...
                params = ParameterList(params)
                sibling.add_parameter("zz", [1, 2])      # ... is edited: must not show in this one
                sibling.remove_parameter(grid[0][0])
        exc = None
        res = []
        shapes = []
        sel = "str"
        knob = (len(events) % 2) if len(prog) > 1 else 0        # the program changes one of its settings between two batches
        KNOB[0] = knob
        try:
            kw = {} if limit >= BIG else {"max_timesteps": limit}
            # collector selection: one name / a list holding that one name / a list of two names
            sel = {"one_list": "list1", "tuple2": "tuple2", "tuple1": "tuple1"}.get(two, "list2" if two else "str")
            chosen = {"str": "c1", "list1": ["c1"], "list2": ["c1", "c2"], "tuple2": ("c1", "c2"), "tuple1": ("c1",)}[sel]
            if len(prog) > 1 and sel in ("list1", "list2"):
                # the batches of one program pass the SAME list object, edited in place in between
                if selobj is None:
                    selobj = []
                selobj[:] = chosen
                chosen = selobj
            # arguments at their documented defaults are left out of every other call (one process, one repetition)
            if procs != 1 or (reps + len(events) + len(grid)) % 2:
                kw["processes"] = procs
            if reps != 1 or (len(events) + len(grid)) % 2:
                kw["repetitions"] = reps
            r = batch_run(BatchModel, params, collectors=chosen, **kw)
            res = [_norm_run(x) for x in r]
            shapes = ["dict" if isinstance(x, dict) else ("list" if isinstance(x, list) else type(x).__name__) for x in r]
        except Exception as e:  # noqa: BLE001
            exc = e
        finally:
            FAILSTOP = -1
            KNOB[0] = 0
        events.append({"op": "batch_run", "grid": [[n, [("None" if x is None else x) for x in v]] for n, v in grid], "reps": reps, "limit": limit, "two": two is True or two == 1 or two == "tuple2",
                       "sel": sel, "shapes": shapes, "knob": knob, "procs": procs, "failstop": failstop, "failname": FAILNAMES[failkind], "out": outcome(exc), "res": res})
    return events


def random_batch_program(rng, procs_choices, fail=None):
    stops = rng.sample([0, 1, 2, 3, 4], rng.randint(1, 3))
    grid = [["stop", stops]]
    if rng.random() < 0.6:
        grid.append(["cstart", rng.sample([0, 1, 2], rng.randint(1, 2))])
    if rng.random() < 0.4:
        grid.append(["cfreq", rng.sample([1, 2], rng.randint(1, 2))])
    if rng.random() < 0.3:
        grid.append(["burn", rng.sample([0, 1, 2], rng.randint(1, 2))])
    grid.append(["d", rng.sample([0, 1, 2, 4, 7], rng.randint(1, 2))])
    ncomb = 1
    for e in grid:
        ncomb *= len(e[1])
    if rng.random() < 0.25 and ncomb <= 12:
        grid.append(["w", rng.sample(sorted(W_VALUES), rng.randint(1, 3))])       # numbers of mixed types, tuples (as codes)
        ncomb *= len(grid[-1][1])
    r = rng.random()
    if r < 0.2:
        grid.append(["label", [rng.choice(LABELS)], "scalar"])       # one text value, declared as the bare string
    elif r < 0.3 and ncomb <= 12:
        grid.append(["label", rng.sample(LABELS, 2)])
    elif r < 0.45 and ncomb <= 12:
        stops.append(stops[0])            # the same value listed twice: two grid points
    rng.shuffle(grid)
    reps = rng.choice([1, 1, 2, 3])
    limit = rng.choice([0, 1, 2, 3, 4, 5, BIG])
    if fail is None:
        failstop = rng.choice(stops) if rng.random() < 0.25 else -1
    else:
        failstop = fail
    return [["batch_run", grid, reps, limit, rng.choice([False, False, True, True, "one_list", "tuple2", "tuple1"]), rng.choice(procs_choices), failstop,
             rng.choice(sorted(FAILNAMES))]]


def empty_batch_programs(procs_choices):
    """Batches without any execution: an empty value list in the grid, or zero repetitions, for every process count."""
    out = []
    for procs in procs_choices:
        out.append([["batch_run", [["stop", [1, 2]], ["d", []]], 1, BIG, False, procs, -1]])
        out.append([["batch_run", [["stop", []]], 2, 3, True, procs, -1]])
        out.append([["batch_run", [["stop", [1, 2]], ["d", [0]]], 0, BIG, False, procs, -1]])
    return out


def reused_list_programs(rng, procs_choices, n):
    """2-4 batch runs on ONE ParameterList; parameters are added / removed between the runs.  While a name stays declared its
    values stay; a name that was removed may come back with other values (a grid refined between two runs)."""
    vals0 = {"stop": [1, 3], "cstart": [0, 1], "cfreq": [1, 2], "d": [0, 2]}
    alt = {"stop": [2, 4, 0], "cstart": [2], "cfreq": [2, 1], "d": [4]}
    out = []
    for _ in range(n):
        vals = {k: list(v) for k, v in vals0.items()}
        names = rng.sample(sorted(vals), rng.randint(1, 3))
        prog = []
        for _ in range(rng.randint(2, 4)):
            prog.append(["batch_run", [[x, list(vals[x])] for x in names], rng.choice([1, 2]), rng.choice([2, 4, BIG]),
                         rng.choice([False, "one_list", True]), rng.choice(procs_choices), -1])
            if rng.random() < 0.6 and len(names) > 1:
                names = [x for x in names if x != rng.choice(names)]
            else:
                extra = [x for x in sorted(vals) if x not in names]
                if extra:
                    x = rng.choice(extra)
                    if rng.random() < 0.5:
                        vals[x] = list(alt[x])          # comes back with other values
                    names = names + [x]
        out.append(prog)
    return out


def fail_position_programs(procs_choices):
    """A failing execution at every position of a 4-task batch (one combination per position, reps = 1), each process count."""
    out = []
    for procs in procs_choices:
        for k in range(4):
            stops = [1, 2, 3, 4]
            out.append([["batch_run", [["stop", stops], ["d", [k % 2]]], 1, BIG, False, procs, stops[k],
                         sorted(FAILNAMES)[(k + procs) % len(FAILNAMES)]]])
    return out


# ------------------------------------------------------------------------------------------------ C16
TABLE = {}
COUNT = {}
SLOW_FIRST = False
SCALE = "1"
SCALES = {"1": 1, "q": 0.25, "big": 2 ** 61, "qoff": 0.25, "ioff": 1}
OFFSETS = {"qoff": float(2 ** 40), "ioff": 10 ** 18}     # ioff: integer scores 10**18 + s (MIN / MAX / SUM modes: exact integers)      # large magnitude, small spread: only used with the (shift-invariant) variance modes
MODES = {"MIN": ScoreMode.MIN, "MAX": ScoreMode.MAX, "MIN_MEAN": ScoreMode.MIN_MEAN, "MAX_MEAN": ScoreMode.MAX_MEAN,
         "MIN_SUM": ScoreMode.MIN_SUM, "MAX_SUM": ScoreMode.MAX_SUM, "MIN_VARIANCE": ScoreMode.MIN_VARIANCE,
         "MAX_VARIANCE": ScoreMode.MAX_VARIANCE}
SENT = 987654321


def _key(x, y):
    """Grid points are told apart by value AND type: 1, 1.0 and True are equal values but different grid points."""
    return (x, type(x).__name__, y, type(y).__name__)


class SearchModel(Model):
    def __init__(self, x=0, y=0, seed=None):
        super().__init__(seed=seed)
        self.key = _key(x, y)
        if SLOW_FIRST and x == 0 and y == 0:
            time.sleep(0.05)              # the first grid point finishes last: completion order differs from grid order
        self.rep = COUNT.get(self.key, 0)
        COUNT[self.key] = self.rep + 1
        if (x + y) % 2:
            self.complete()
        else:
            self.systems.add_system(Stopper(self, 1, 0, False))


def score_func(model):
    return OFFSETS.get(SCALE, 0) + TABLE[model.key][model.rep] * SCALES[SCALE]


def _exact_int(fr):
    n = round(fr)
    if abs(fr - n) <= Fraction(1, 10 ** 9) * max(1, abs(n)) and abs(n) < 2 ** 31:
        return int(n)
    return SENT


def run_search(prog):
    global TABLE, COUNT, SCALE, SLOW_FIRST
    events = []
    shared = None
    own_grid = None
    for op in prog:
        _, grid, reps, mode, procs, scale, table = op
        names = [n for n, _ in grid]
        # combinations in declaration order, first slowest (only to key the score table by parameter values)
        import itertools
        keys = [dict(zip(names, vals)) for vals in itertools.product(*[v for _, v in grid])]
        TABLE = {_key(k.get("x", 0), k.get("y", 0)): list(table[i]) for i, k in enumerate(keys)}
        COUNT = {}
        SCALE = scale
        SLOW_FIRST = procs > 1 or (reps + len(table)) % 4 == 0     # (also for a quarter of the serial searches: those that omit `processes`)
        sc = SCALES[scale]
        n = reps
        K = 16 * n * (n - 1) if n > 1 else 16
        exc = None
        report, best = [], 0
        try:
            if len(prog) > 1 and len(prog[0][1][0][1]) == 3:
                # a tuning loop: every search of the program gets its own freshly written dict grid (the earlier one is gone by then)
                # (as in a helper `def scan(lo, hi): return grid_search(M, {'x': range(lo, hi)}, ...)` called step after step)
                own_grid = None
                own_grid = {nm: list(v) for nm, v in grid}
                params = own_grid
            elif len(prog) > 1:
                # several searches of one program re-use ONE ParameterList object
                if shared is None:
                    shared = ParameterList({nm: list(v) for nm, v in grid})
                    shared_vals = {nm: list(v) for nm, v in grid}
                for nm, v in grid:
                    if shared_vals.get(nm) != list(v):
                        # the grid is refined between two searches: the parameter is removed and declared again with other values
                        shared.remove_parameter(nm)
                        shared.add_parameter(nm, list(v))
                        shared_vals[nm] = list(v)
                params = shared
            else:
                params = {nm: list(v) for nm, v in grid}
                if (reps + len(table)) % 3 == 1:
                    decoy = ParameterList()              # two lists created empty in one program, filled differently
                    decoy.add_parameter("zz", [1, 2])
                    own = ParameterList()
                    for nm, v in grid:
                        own.add_parameter(nm, list(v))
                    params = own
                if (reps + len(table)) % 3 == 0:
                    # values given as one-shot iterables (a generator, map, iter): the grid is built from them once
                    wrap = [lambda v: (x for x in v), lambda v: map(lambda x: x, v), iter][(reps + procs) % 3]
                    params = {nm: wrap(list(v)) for nm, v in grid}
            skw = {}
            if procs != 1 or (reps + len(table)) % 2:
                skw["processes"] = procs          # documented defaults are left out of every other call
            if reps != 1 or len(table) % 2:
                skw["repetitions"] = reps
            if mode != "MIN" or len(table) % 2:
                skw["mode"] = MODES[mode]
            b, results = grid_search(SearchModel, params, score_func, **skw)
            for r in results:
                params = [[str(k), int(v)] for k, v in r.items() if k not in ("records", "score")]
                recs = [_exact_int((Fraction(x) - Fraction(OFFSETS.get(scale, 0))) / Fraction(sc)) for x in r["records"]]
                norm = Fraction(sc) ** 2 if "VARIANCE" in mode else Fraction(sc)
                shift = 0
                if scale == "ioff":      # the aggregate of shifted scores: n * offset for a sum, the offset itself for min / max
                    shift = OFFSETS["ioff"] * (n if "SUM" in mode else 1)
                score = _exact_int((Fraction(r["score"]) - shift) / norm * K)
                report.append({"params": params, "records": recs, "score": score})
            best = next((i + 1 for i, r in enumerate(results) if r is b), 0)
        except Exception as e:  # noqa: BLE001
            exc = e
        events.append({"op": "grid_search", "grid": [[nm, [int(x) for x in v]] for nm, v in grid], "reps": reps, "mode": mode, "procs": procs,
                       "scale": scale, "table": [list(r) for r in table], "K": K, "out": outcome(exc), "report": report, "best": best})
    return events


def search_programs_from_tables(tables, modes, procs_choices, scales, rng, grid=None):
    out = []
    for t in tables:
        ncomb, reps = len(t), len(t[0])
        g = grid or ([["x", list(range(ncomb))]] if ncomb != 4 else [["x", [0, 1]], ["y", [0, 1]]])
        if grid is None and rng.random() < 0.2:
            g = [list(e) for e in g] + [["seed", [rng.choice([5, 0, 123])]]]          # the models are seeded through the grid
        elif grid is None and rng.random() < 0.25:
            # a grid that lists equal values more than once (1, 1.0 and True are equal; the fixture tells them apart by type)
            if ncomb == 4:
                g = [["x", [0, 0.0]], ["y", [1, True]]]
            elif ncomb in (2, 3):
                g = [["x", [1, 1.0, True][:ncomb]]]
        for mode in modes:
            if "VARIANCE" in mode and reps < 2:
                continue
            sc = rng.choice(scales + ["qoff", "qoff"]) if "VARIANCE" in mode else rng.choice(scales)
            if mode in ("MIN", "MAX", "MIN_SUM", "MAX_SUM") and rng.random() < 0.3:
                sc = "ioff"
            out.append([["grid_search", g, reps, mode, rng.choice(procs_choices), sc, t]])
    return out


def repeated_search_programs(tables, rng, n):
    """2-3 consecutive searches on the same ParameterList object (same grid, different tables / modes / process counts)."""
    out = []
    for _ in range(n):
        nc = rng.choice([2, 3])
        g = [["x", list(range(nc))]]
        prog = []
        for k in range(rng.choice([2, 3]) + (nc == 3) * rng.choice([0, 2])):
            if k and rng.random() < (0.5 if nc == 2 else 0.8):
                g = [["x", [v + 1 for v in g[0][1]]]]          # the grid is shifted (same number of points)
            reps = rng.choice([1, 2])
            t = [[rng.choice([-3, -1, 0, 0, 2, 5]) for _ in range(reps)] for _ in range(nc)]
            mode = rng.choice([m for m in sorted(MODES) if reps > 1 or "VARIANCE" not in m])
            prog.append(["grid_search", g, reps, mode, rng.choice([1, 1, 2]), rng.choice(["1", "q"]), t])
        out.append(prog)
    return out


def run_program(prog):
    k = prog[0][0]
    if k in ("init", "init_none"):
        return run_params(prog)
    if k == "batch_run":
        return run_batch(prog)
    if k == "grid_search":
        return run_search(prog)
    raise AssertionError(prog[0])


def tamper(trace, rng):
    e = trace[-1]
    if e["op"] == "build":
        if e["res"]:
            e["res"] = e["res"][1:] + e["res"][:1] if len(e["res"]) > 1 and e["res"][0] != e["res"][-1] else e["res"][:-1]
        else:
            e["res"] = [[["a", "i1"]]]
        return trace
    if e["op"] == "batch_run":
        if e["out"] != "ok":
            e["out"] = "ok"
        elif e["res"]:
            e["res"] = e["res"][:-1]
        else:
            return None
        return trace
    if e["op"] == "grid_search":
        if e["out"] != "ok" or not e["report"]:
            return None
        e["best"] = e["best"] % len(e["report"]) + 1 if len(e["report"]) > 1 else 0
        # make sure the tampered index is not also a first optimum: corrupt a score too
        e["report"][0]["score"] += 1
        return trace
    return None
