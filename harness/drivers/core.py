"""Composition driver: one real Model; scripted systems act on the population while the scheduler steps.
Events of both vocabularies (Scheduler_Trace, World_Trace) go into ONE trace, judged by spec/Core_Trace.tla.

Program: {"setup": [world ops: model / agent / attach ...], "ops": [scheduler ops | ["w", world op ...] ...]}
Scripts of systems may contain ["w", world op ...] acts besides the scheduler acts."""
from . import common  # noqa: F401
from . import scheduler as S, world as Wd


def run_program(prog):
    d = Wd.Driver()
    for op in prog["setup"]:
        getattr(d, "op_" + op[0])(*op[1:])
    model = d.models["m1"][0]
    w = S.SchedWorld(S.program_ids([o for o in prog["ops"] if o[0] != "w"]), model=model, events=d.events, world=d)
    for op in prog["ops"]:
        k = op[0]
        if k == "w":
            getattr(d, "op_" + op[1])(*op[2:])
        elif k == "add":
            w.add(tuple(op[1]), op[2], tuple(op[3]), op[4])
        elif k == "remove":
            w.remove(op[1])
        elif k == "complete":
            w.complete()
        elif k == "exec":
            w.execute(op[1], op[2])
        elif k == "reject":
            w.exec_reject(op[1])
        else:
            raise AssertionError(op)
    return d.events


def random_program(rng, length=14):
    cls, ext, wrap = rng.choice(Wd.WORLD_MENU[rng.choice(["plain", "space", "grid", "grid2d"])])
    setup = [["model", "m1", cls, ext, wrap]]
    agents = []
    ser = 0
    for k, i in enumerate(rng.sample(["x", "y", "z", "w", "v"], rng.randint(2, 4))):
        a = [i, 1]
        agents.append(a)
        setup.append(["agent", a, "m1", rng.choice([None, 0, 1])])
        for T in ("A", "B", "C"):
            if rng.random() < 0.4:
                ser += 1
                setup.append(["attach", a, T, ser, False])
    fine = cls == "space"

    def wop():
        a = rng.choice(agents)
        r = rng.random()
        if r < 0.35:
            p = None if cls == "plain" else [rng.randint(0, max(e - (0 if fine else 1), 0)) if e else 0 for e in ext]
            return ["w", "join", a, p]
        if r < 0.5:
            return ["w", "leave", "m1", a[0]]
        if r < 0.7 and cls != "plain":
            return ["w", "move", a, [rng.choice(Wd.delta_pool(e, fine)) for e in ext]]
        if r < 0.8 and cls != "plain":
            return ["w", "move_to", a, [rng.choice(Wd.coord_pool(e, fine)) for e in ext]]
        if r < 0.9:
            return ["w", "get_agents", "m1", rng.sample(["A", "B", "C"], rng.randint(0, 2)), rng.choice([None, 0, 1])]
        return ["w", "lookup", "m1", rng.choice(["x", "y", "z", "nobody"]), rng.random() < 0.5]

    ids = ["s1", "s2", "s3", "s4"]
    ops = []
    for _ in range(length):
        r = rng.random()
        if r < 0.3:
            script = [wop() for _ in range(rng.randint(0, 3))]
            if rng.random() < 0.25:
                script.insert(rng.randint(0, len(script)), rng.choice([["remove", rng.choice(ids)], ["clean_up"],
                                                                       ["add", [rng.choice(ids), 2], rng.randint(-1, 2), list(S.ALWAYS), []]]))
            ops.append(["add", [rng.choice(ids), 1], rng.randint(-1, 2), S.random_window(rng), script])
        elif r < 0.4:
            ops.append(["remove", rng.choice(ids)])
        elif r < 0.6:
            ops.append(wop())
        elif r < 0.63:
            ops.append(["complete"])
        else:
            ops.append(["exec", rng.choice([1, 1, 2, 3]), rng.choice(["execute", "execute_systems"])])
            if ops[-1][2] == "execute_systems":
                ops[-1][1] = 1
    return {"setup": setup, "ops": ops}
