"""Drives real ECAgent models/environments (plain, SpaceWorld, DiscreteWorld, LineWorld, GridWorld) and records
traces in the vocabulary of spec/World_Trace.tla.  No expectation is computed here.

Programs (JSON-able):
  ["model", m, cls, [W, H, D], wrap]     cls: plain | space | discrete | line | grid2d  (extents in spec units)
  ["agent", [id, ser], m, tag|None]
  ["attach", a, T, serial, reg] | ["detach", a, T, dereg] | ["register", a, T]
  ["join", a, [x, y, z] | None] | ["leave", m, id] | ["lookup", m, id, strict]
  ["move", a, [dx, dy, dz]] | ["move_to", a, [x, y, z]] | ["agents_at", m, [x, y, z], l, [xl, yl, zl]]
  ["get_agents", m, [T..], tag|None] | ["pick", m, [T..], tag|None, nseeds] | ["shuffle", m, [T..], tag|None]
Spec units: quarter units in continuous worlds (cls space), cells in grid worlds.
"""
from . import common  # noqa: F401
from ECAgent.Core import (Model, Agent, Component, AgentNotFoundError, DuplicateAgentError,
                          ComponentNotFoundError)
from ECAgent.Environments import SpaceWorld, DiscreteWorld, LineWorld, GridWorld, PositionComponent





def _fresh(tag):
    """An equal but separately created int object (tags are compared by value, not by identity)."""
    return int(str(tag)) if type(tag) is int else tag


class A(Component):
    pass


class B(Component):
    pass


class C(Component):
    """A container-like user component: falsy while empty (truthiness must not matter to the framework)."""

    def __len__(self):
        return 0


class D(B):
    """A component type derived from another user component type (type identity, not subclassing, decides)."""


class Z(Component):      # a type nobody ever carries
    pass


E = type("A", (Component,), {"__doc__": "A second, unrelated component class that happens to have the same NAME as class A "
                                        "(types are told apart by identity, not by name)."})


ALIAS = [False]      # drift runner: call the deprecated camelCase aliases instead of their replacements


def _m(obj, new, old):
    return getattr(obj, old if ALIAS[0] else new)


TYPES = {"A": A, "B": B, "C": C, "D": D, "E": E, "Z": Z}
LISTED = ("A", "B", "C", "D", "E")


class _Herd(Agent):
    """An agent class with class components (see op_agent)."""


_Herd.tag = 7          # the class's default tag (instances created without a tag get it)
_Herd.add_class_component(A(None, None))
_Herd.add_class_component(Z(None, None))

BAD = -99999


def outcome(exc):
    if exc is None:
        return "ok"
    for cls, name in ((AgentNotFoundError, "AgentNotFoundError"), (DuplicateAgentError, "DuplicateAgentError"),
                      (ComponentNotFoundError, "ComponentNotFoundError"), (KeyError, "KeyError"),
                      (IndexError, "IndexError"), (ValueError, "ValueError")):
        if isinstance(exc, cls):
            return name
    if type(exc) is Exception:
        return "Exception"
    return "Unexpected:" + type(exc).__name__


class Driver:
    def __init__(self):
        self.models = {}        # m -> (Model, cls, scale)
        self.agents = {}        # (id, ser) -> Agent
        self.envs = {}          # m -> environment object that is not (yet) installed in its model
        self.comp_ids = {}      # id(component) -> ((id, ser), serial)
        self.keep = []          # keep components alive so id() stays unique
        self.events = []

    # ---------------- helpers ----------------
    def env(self, m):
        """The environment object of model m - for a model created with `late` it is only installed by the op `install`."""
        e = self.envs.get(m)          # NB: an empty environment is falsy (len == 0)
        return e if e is not None else self.models[m][0].environment

    def scale(self, m):
        return 4.0 if self.models[m][1] == "space" else 1

    def to_py(self, m, u):
        s = self.scale(m)
        return u / s if s != 1 else u

    def to_units(self, m, x):
        s = self.scale(m)
        try:
            v = x * s
            if v != int(v):
                return BAD
            return int(v)
        except Exception:  # noqa: BLE001
            return BAD

    def obj_of(self, agent):
        for k, v in self.agents.items():
            if v is agent:
                return list(k)
        return ["?", 0]

    def model_of(self, a):
        ag = self.agents[tuple(a)]
        for m, (mod, _, _) in self.models.items():
            if ag.model is mod:
                return m
        raise AssertionError

    def where(self, a):
        """The model in whose environment the agent currently is (None if nowhere), through the public lookup."""
        ag = self.agents[tuple(a)]
        for m, (mod, _, _) in self.models.items():
            if self.env(m).get_agent(ag.id) is ag:
                return m
        return None

    # ---------------- projection through the public API ----------------
    def obs(self):
        models = []
        self.nobs = getattr(self, "nobs", 0) + 1
        ask_all = self.nobs % 3 != 2          # the unfiltered listing is not asked after every single call
        for m, (mod, cls, _) in self.models.items():
            envr = self.env(m)
            ids = sorted({k[0] for k in self.agents})
            by_id = []
            for i in ids:
                r = envr.get_agent(i)
                if r is not None:
                    by_id.append([i, self.obj_of(r)])
            listing = []
            for T in LISTED:
                lst = mod.systems.getComponents(TYPES[T]) if ALIAS[0] else mod.systems[TYPES[T]]
                try:
                    strict_res = mod.systems.get_components(TYPES[T], throw_error=True)
                    strict = "list" if strict_res else "empty"
                except KeyError:
                    strict = "KeyError"
                if lst is None:
                    form, entries = "None", []
                elif len(lst) == 0:
                    form, entries = "empty", []
                else:
                    form = "list"
                    entries = []
                    for c in lst[:40]:
                        owner, ser = self.comp_ids.get(id(c), (("?", 0), 0))
                        entries.append([list(owner), ser])
                    if len(lst) > 40:      # keep traces small: an absurd listing is rejected anyway
                        entries.append([["?overflow", len(lst)], -1])
                listing.append({"T": T, "entries": entries, "form": form, "strict": strict})
            models.append({"m": m, "env": [self.obj_of(a) for a in envr], "len": len(envr), "hasall": ask_all,
                           "all": [self.obj_of(a) for a in envr.get_agents()] if ask_all else [], "by_id": by_id,
                           "listing": listing})
        agents = []
        for k, ag in self.agents.items():
            comps = []
            haspos = False
            p = [0, 0, 0]
            for ct, c in ag.components.items():
                if ct is PositionComponent:
                    haspos = True
                    m = self.where(k) or self.model_of(k)
                    p = [self.to_units(m, v) for v in c.xyz()]
                else:
                    name = next((n for n, t in TYPES.items() if t is ct), "?")
                    comps.append([name, self.comp_ids.get(id(c), (None, -1))[1]])
            agents.append({"a": list(k), "tag": ag.tag if isinstance(ag.tag, int) else BAD, "comps": comps,
                           "haspos": haspos, "pos": p})
        return {"models": models, "agents": agents}

    def emit(self, ev, exc=None):
        ev["out"] = outcome(exc)
        ev["obs"] = self.obs()
        self.events.append(ev)

    # ---------------- operations ----------------
    def op_model(self, m, cls, ext, wrap, late=False):
        from ECAgent.Core import Environment
        mod = Model(seed=len(self.models) + 1)
        kind = "plain"
        envr = None
        if cls == "plain" and late:
            envr = Environment(mod)
        if cls != "plain":
            W, H, D = ext
            if cls == "space":
                envr = SpaceWorld(mod, W / 4.0, H / 4.0, D / 4.0, wrap_env=wrap)
                kind = "space"
            elif cls == "discrete":
                envr = DiscreteWorld(mod, W, H, D, wrap_env=wrap)
                kind = "grid"
            elif cls == "line":
                envr = LineWorld(mod, W, wrap_env=wrap)
                kind = "grid"
            elif cls == "grid2d":
                envr = GridWorld(mod, W, H, wrap_env=wrap)
                kind = "grid"
            else:
                raise AssertionError(cls)
        if envr is not None:
            if late:
                self.envs[m] = envr          # populated first, installed later with the op `install`
            else:
                mod.set_environment(envr)
        self.models[m] = (mod, "space" if cls == "space" else cls, kind)
        self.emit({"op": "new_model", "m": m, "kind": kind, "cls": cls, "ext": list(ext) if cls != "plain" else [0, 0, 0],
                   "wrap": bool(wrap) if cls != "plain" else False})

    def op_install(self, m):
        """model.set_environment(env) for an environment that may already hold agents; nothing observable may change."""
        envr = self.envs.pop(m, None)
        if envr is None:
            return
        exc = None
        try:
            self.models[m][0].set_environment(envr)
        except Exception as e:  # noqa: BLE001
            exc = e
        self.emit({"op": "install", "m": m}, exc)

    def op_complete_model(self, m):
        """Model.complete(): the environment keeps working exactly as before (a completed model is falsy: bool(model) is is_running())."""
        exc = None
        try:
            self.models[m][0].complete()
        except Exception as e:  # noqa: BLE001
            exc = e
        self.emit({"op": "install", "m": m}, exc)      # same trace action: nothing observable changes

    def op_agent(self, a, m, tag):
        a = tuple(a)
        mod = self.models[m][0]
        # every third agent is an instance of a subclass whose CLASS carries components of the types A and C (class components
        # belong to the class; an agent carries the components attached to itself)
        cls = _Herd if (a[1] + len(self.agents)) % 3 == 2 else Agent
        want = cls.tag if tag is None else tag        # the tag asked for: the given one, else the class default at this moment
        ag = cls(a[0], mod) if tag is None else cls(a[0], mod, tag=_fresh(tag))
        self.agents[a] = ag
        self.emit({"op": "new_agent", "a": list(a), "m": m, "tag": want})

    def op_attach(self, a, T, serial, reg):
        ag = self.agents[tuple(a)]
        comp = TYPES[T](ag, ag.model)
        self.keep.append(comp)
        self.comp_ids[id(comp)] = (tuple(a), serial)
        exc = None
        try:
            _m(ag, "add_component", "addComponent")(comp)
            if reg:
                self.models[self.where(a) or self.model_of(a)][0].systems.register_component(comp)
        except Exception as e:  # noqa: BLE001
            exc = e
        self.emit({"op": "attach", "a": list(a), "T": T, "s": serial, "reg": bool(reg)}, exc)

    def op_detach(self, a, T, dereg):
        ag = self.agents[tuple(a)]
        exc = None
        try:
            if dereg and TYPES[T] in ag:
                self.models[self.where(a) or self.model_of(a)][0].systems.deregister_component(ag.components[TYPES[T]])
            _m(ag, "remove_component", "removeComponent")(TYPES[T])
        except Exception as e:  # noqa: BLE001
            exc = e
        self.emit({"op": "detach", "a": list(a), "T": T, "dereg": bool(dereg)}, exc)

    def op_register(self, a, T):
        ag = self.agents[tuple(a)]
        comp = ag.components.get(TYPES[T])
        if comp is None:
            return
        exc = None
        try:
            self.models[self.where(a) or self.model_of(a)][0].systems.register_component(comp)
        except Exception as e:  # noqa: BLE001
            exc = e
        self.emit({"op": "register", "a": list(a), "T": T}, exc)

    def _args(self, vals):
        """Positional arguments the way callers write them: trailing coordinates that are 0 (the documented default) are left
        out every other time."""
        self.ncalls = getattr(self, "ncalls", 0) + 1
        vals = list(vals)
        if self.ncalls % 2:
            while vals and vals[-1] == 0:
                vals.pop()
        return vals

    def _raw(self, a, T, which):
        """SystemManager.register_component / deregister_component on their own, on the listings of the agent's own model -
        whether or not the agent is resident."""
        ag = self.agents[tuple(a)]
        comp = ag.components.get(TYPES[T])
        if comp is None:
            return
        m = self.model_of(a)
        exc = None
        try:
            getattr(self.models[m][0].systems, which + "_component")(comp)
        except Exception as e:  # noqa: BLE001
            exc = e
        self.emit({"op": which + "_raw", "a": list(a), "m": m, "T": T, "s": self.comp_ids.get(id(comp), (None, -1))[1]}, exc)

    def op_register_raw(self, a, T):
        self._raw(a, T, "register")

    def op_deregister_raw(self, a, T):
        self._raw(a, T, "deregister")

    def op_join(self, a, p, target=None, frac=False):
        ag = self.agents[tuple(a)]
        m = target or self.model_of(a)
        envr = self.env(m)
        exc = None
        try:
            if self.models[m][1] == "plain":
                _m(envr, "add_agent", "addAgent")(ag)
            else:
                real = [self.to_py(m, v) for v in p]
                if frac and self.scale(m) == 1:
                    # a grid world: a coordinate outside the grid is requested half a cell nearer to it - still outside
                    for ax, e in enumerate((envr.width, envr.height, envr.depth)):
                        if e > 0 and real[ax] < 0:
                            real[ax] += 0.5
                        elif e > 0 and real[ax] > e - 1:
                            real[ax] -= 0.5
                envr.add_agent(ag, *self._args(real))
        except Exception as e:  # noqa: BLE001
            exc = e
        self.emit({"op": "join", "a": list(a), "m": m, "p": list(p) if self.models[m][1] != "plain" else []}, exc)

    def op_leave(self, m, i):
        exc = None
        self.nleave = getattr(self, "nleave", 0) + 1
        try:
            # every fifth departure goes through the deprecated (still public) spelling removeAgent: one more way of leaving
            rm = self.env(m).removeAgent if self.nleave % 5 == 0 else _m(self.env(m), "remove_agent", "removeAgent")
            rm("".join(list(i)))      # an equal identifier, not the same string object
        except Exception as e:  # noqa: BLE001
            exc = e
        self.emit({"op": "leave", "m": m, "id": i}, exc)

    def op_lookup(self, m, i, strict):
        exc = None
        res = ["None", 0]
        try:
            ga = _m(self.env(m), "get_agent", "getAgent")
            i2 = "".join(list(i))                                                 # an equal identifier, not the same string object
            r = ga(i2, throw_error=True) if strict else ga(i2)
            if r is not None:
                res = self.obj_of(r)
        except Exception as e:  # noqa: BLE001
            exc = e
        self.emit({"op": "lookup", "m": m, "id": i, "strict": bool(strict), "res": res}, exc)

    def _all_positioned(self, m):
        return all(PositionComponent in a for a in self.env(m))

    def op_move(self, a, d):
        ag = self.agents[tuple(a)]
        m = self.where(a) or self.model_of(a)
        if self.models[m][1] == "plain":
            return
        exc = None
        try:
            self.env(m).move(ag, *self._args([self.to_py(m, v) for v in d]))
        except Exception as e:  # noqa: BLE001
            exc = e
        after = [0, 0, 0]
        if PositionComponent in ag:
            after = [self.to_units(m, v) for v in ag[PositionComponent].xyz()]
        self.emit({"op": "move", "a": list(a), "d": list(d), "after": after}, exc)

    def op_move_to(self, a, p):
        ag = self.agents[tuple(a)]
        m = self.where(a) or self.model_of(a)
        if self.models[m][1] == "plain":
            return
        exc = None
        try:
            self.env(m).move_to(ag, *self._args([self.to_py(m, v) for v in p]))
        except Exception as e:  # noqa: BLE001
            exc = e
        self.emit({"op": "move_to", "a": list(a), "p": list(p)}, exc)

    def op_agents_at(self, m, q, l, al, quarters=False):
        """quarters: in a grid world the query point and the leeways are given in quarter cells (fractional queries)."""
        if self.models[m][1] == "plain" or not self._all_positioned(m):
            return      # a resident without position (known finding F2) makes the query crash: not part of C12's claim
        conv = (lambda v: v / 4.0) if (quarters and self.scale(m) == 1) else (lambda v: self.to_py(m, v))
        exc = None
        res, res2 = [], []
        try:
            args = self._args([conv(v) for v in q])
            kw = dict(leeway=conv(l), x_leeway=conv(al[0]), y_leeway=conv(al[1]), z_leeway=conv(al[2]))
            r = self.env(m).get_agents_at(*args, **kw)
            res = [self.obj_of(x) for x in r]
            prev = getattr(self, "_kept", None)
            if prev is not None and [self.obj_of(x) for x in prev[0]] != prev[1]:
                res = res + [["!earlier answer changed", -1]]       # an answer the caller kept is not touched by later queries
            self.nq = getattr(self, "nq", 0) + 1
            if self.nq % 2:
                self._kept = (r, list(res))         # this answer is kept as it is ...
                res2 = list(res)
            else:
                self._kept = None
                r.clear()                         # ... this one is edited by the caller,
                r.append(None)
                res2 = [self.obj_of(x) for x in self.env(m).get_agents_at(*args, **kw)]     # who then asks the same question again
        except Exception as e:  # noqa: BLE001
            exc = e
        self.emit({"op": "agents_at", "m": m, "q": list(q), "l": l, "al": list(al), "res": res, "res2": res2,
                   "qs": 4 if (quarters and self.scale(m) == 1) else 1}, exc)

    def op_move_sat(self, ext, start, dirs):
        """A separate continuous, non-wrapping world with arbitrary float extents: move far beyond / below / not at all per axis
        and report where the agent landed relative to the edges (exact float comparison)."""
        mod = Model()
        w = SpaceWorld(mod, *ext)
        mod.set_environment(w)
        ag = Agent("s", mod)
        exc = None
        res = ["?", "?", "?"]
        try:
            w.add_agent(ag, *start)
            before = ag[PositionComponent].xyz()
            w.move(ag, *[d * (10 * e + 3.7) for d, e in zip(dirs, ext)])
            after = ag[PositionComponent].xyz()
            for i in range(3):
                res[i] = "hi" if (dirs[i] == 1 and after[i] == ext[i]) else "lo" if (dirs[i] == -1 and after[i] == 0) else \
                    "same" if (dirs[i] == 0 and after[i] == before[i]) else "off:%r" % (after[i],)
        except Exception as e:  # noqa: BLE001
            exc = e
        self.emit({"op": "move_sat", "ext": [repr(e) for e in ext], "start": [repr(v) for v in start], "dirs": list(dirs), "res": res}, exc)

    def op_move_wrap(self, ext, start, delta):
        """A separate continuous WRAPPING world with arbitrary float extents: a relative move must land exactly at
        (old + delta) modulo extent - the float the statement's own formula gives - on every axis."""
        mod = Model()
        w = SpaceWorld(mod, *ext, wrap_env=True)
        mod.set_environment(w)
        ag = Agent("s", mod)
        exc = None
        res = ["?", "?", "?"]
        try:
            w.add_agent(ag, *start)
            before = ag[PositionComponent].xyz()
            w.move(ag, *delta)
            after = ag[PositionComponent].xyz()
            for i in range(3):
                res[i] = "exact" if after[i] == (before[i] + delta[i]) % ext[i] else "off:%r" % (after[i],)
        except Exception as e:  # noqa: BLE001
            exc = e
        self.emit({"op": "move_wrap", "ext": [repr(e) for e in ext], "start": [repr(v) for v in start],
                   "delta": [repr(v) for v in delta], "res": res}, exc)

    def op_dims(self, m):
        mod, cls, _ = self.models[m]
        if cls == "plain":
            return
        exc = None
        res = []
        try:
            r = self.env(m).get_dimensions()
            r = r if isinstance(r, tuple) else (r,)
            res = [self.to_units(m, v) for v in r]
        except Exception as e:  # noqa: BLE001
            exc = e
        self.emit({"op": "dims", "m": m, "cls": cls, "res": res}, exc)

    def op_geom(self, a, b):
        from ECAgent.Environments import distance_sqr
        A_, B_ = self.agents[tuple(a)], self.agents[tuple(b)]
        if PositionComponent not in A_ or PositionComponent not in B_ or self.where(a) is None or self.where(a) != self.where(b):
            return
        m = self.where(a)
        sc = self.scale(m)
        pa, pb = A_[PositionComponent], B_[PositionComponent]
        exc = None
        ev = {"op": "geom", "a": list(a), "b": list(b)}
        try:
            def sq(v):
                v2 = v * sc * sc
                return int(v2) if v2 == int(v2) else BAD
            u = lambda t: [self.to_units(m, v) for v in t]  # noqa: E731
            ev.update(d2ab=sq(distance_sqr(pa, pb)), d2ba=sq(distance_sqr(pb, pa)), xy=u(pa.xy()), xz=u(pa.xz()), yz=u(pa.yz()),
                      xyz=u(pa.xyz()), getpos=u(pa.getPosition() if ALIAS[0] else pa.get_position()))
        except Exception as e:  # noqa: BLE001
            exc = e
        self.emit(ev, exc)

    def _filter_args(self, tpl, tag):
        return [TYPES[t] for t in tpl], ({} if tag is None else {"tag": _fresh(tag)})

    def op_get_agents(self, m, tpl, tag):
        args, kw = self._filter_args(tpl, tag)
        exc = None
        res = []
        try:
            r = _m(self.env(m), "get_agents", "getAgents")(*args, **kw)
            res = [self.obj_of(x) for x in r]
            r.clear()                  # the caller may modify the returned list
            r.append(None)
        except Exception as e:  # noqa: BLE001
            exc = e
        self.emit({"op": "get_agents", "m": m, "tpl": list(tpl), "hastag": tag is not None, "tag": 0 if tag is None else tag,
                   "res": res}, exc)

    def op_pick(self, m, tpl, tag, nseeds):
        args, kw = self._filter_args(tpl, tag)
        mod = self.models[m][0]
        exc = None
        picks = []
        try:
            state = mod.random.getstate()
            for k in range(nseeds):
                mod.random.seed(1000003 * k + 17)
                r = _m(self.env(m), "get_random_agent", "getRandomAgent")(*args, **kw)
                o = ["None", 0] if r is None else self.obj_of(r)
                if o not in picks:
                    picks.append(o)
            mod.random.setstate(state)
        except Exception as e:  # noqa: BLE001
            exc = e
        self.emit({"op": "pick", "m": m, "tpl": list(tpl), "hastag": tag is not None, "tag": 0 if tag is None else tag,
                   "picks": sorted(picks)}, exc)

    def op_shuffle(self, m, tpl, tag):
        args, kw = self._filter_args(tpl, tag)
        exc = None
        res = []
        try:
            r = self.env(m).shuffle(*args, **kw)
            res = [self.obj_of(x) for x in r]
            r.clear()
        except Exception as e:  # noqa: BLE001
            exc = e
        self.emit({"op": "shuffle", "m": m, "tpl": list(tpl), "hastag": tag is not None, "tag": 0 if tag is None else tag,
                   "res": res}, exc)


def run_program(prog):
    d = Driver()
    for op in prog:
        getattr(d, "op_" + op[0])(*op[1:])
    return d.events


# ---------------------------------------------------------------------------
# adaptive random histories: the next operation is chosen looking only at the public API of the live objects
# (is the agent resident? does it carry the type?), never at an expected result
# ---------------------------------------------------------------------------
WORLD_MENU = {
    "plain":  [("plain", [0, 0, 0], False)],
    "space":  [("space", [16, 10, 12], False), ("space", [12, 8, 0], True), ("space", [10, 0, 0], False),
               ("space", [4, 12, 20], True), ("space", [0, 8, 4], False)],
    "grid":   [("discrete", [3, 2, 4], False), ("discrete", [4, 3, 0], True), ("discrete", [2, 0, 3], False),
               ("discrete", [0, 3, 2], True), ("discrete", [1, 1, 1], False), ("discrete", [5, 2, 3], True)],
    "line":   [("line", [5, 0, 0], False), ("line", [3, 0, 0], True), ("line", [1, 0, 0], False)],
    "grid2d": [("grid2d", [3, 4, 0], False), ("grid2d", [2, 5, 0], True), ("grid2d", [1, 3, 0], False)],
}


def coord_pool(e, fine):
    if e == 0:
        return [0, 0, 0, 0, 1, -1, 3]
    base = [0, 0, 1, e - 1, e, e + 1, -1, e // 2, 10 * e + 3, -(10 * e + 3)]
    if fine:
        base += [1, 2, 3, e - 2, e - 1, 5]
    return base


def delta_pool(e, fine):
    base = [0, 1, -1, 2, -2, e, -e, e + 1, -(e + 1), 10 * e + 3, -(10 * e + 3), 3 * e, -2 * e]
    if fine:
        base += [1, -1, 3, -3, 5]
    return base


def random_run(rng, *, kinds=("plain",), n_models=2, n_ids=3, length=40, mods="clean", spatial=True,
               queries=True, lookups=True, tags=(None, None, 0, 1, 7), weights=None, nseeds=0, guests=False, late_install=False, completes=True):
    """Returns (program, events).  mods: 'clean' = never touch components of resident agents;
    'sanctioned' = residents only with the explicit (de)register calls; 'any' = also without them."""
    d = Driver()
    prog = []

    REPEATABLE = ("join", "leave", "move", "move_to", "agents_at", "lookup", "get_agents", "register", "register_raw", "deregister_raw")

    def do(op):
        prog.append(op)
        before = len(d.events)
        getattr(d, "op_" + op[0])(*op[1:])
        # callers retry: an operation that was refused is asked once more as it is (one time in three), and one that went
        # through is sometimes simply repeated
        if op[0] in REPEATABLE and len(d.events) > before:
            refused = d.events[-1].get("out") != "ok"
            if rng.random() < (0.33 if refused else 0.08):
                prog.append(list(op))
                getattr(d, "op_" + op[0])(*op[1:])

    worlds = {}
    pending_install = []
    for k in range(n_models):
        m = f"m{k + 1}"
        cls, ext, wrap = rng.choice(WORLD_MENU[rng.choice(kinds)])
        worlds[m] = (cls, ext, wrap)
        late = late_install and rng.random() < 0.5
        do(["model", m, cls, ext, wrap, late])
        if late:
            pending_install.append(m)
    ids = ["x", "", "ENVIRONMENT", "0", "v", "u"][:n_ids]       # identifiers are strings - the empty one, "0" and the environment's own id included
    objs = {m: [] for m in worlds}
    serial = {}
    cser = [0]

    def new_agent(m):
        i = rng.choice(ids)
        serial[(m, i)] = serial.get((m, i), 0) + 1
        # serials are global per id so that objects of different models never share a name
        n = sum(1 for k in d.agents if k[0] == i) + 1
        a = [i, n]
        objs[m].append(a)
        do(["agent", a, m, rng.choice(tags)])
        return a

    for m in worlds:
        for _ in range(rng.randint(2, 4)):
            new_agent(m)
    W = {"agent": 2, "attach": 8, "detach": 4, "join": 10, "leave": 6, "lookup": 3 if lookups else 0,
         "move": 8 if spatial else 0, "move_to": 5 if spatial else 0, "agents_at": 5 if (spatial and queries) else 0,
         "get_agents": 4 if queries else 0, "pick": 2 if (queries and nseeds) else 0, "shuffle": 2 if queries else 0,
         "register": 2 if mods in ("any", "raw") else 0, "raw": 14 if mods == "raw" else 0}
    if weights:
        W.update(weights)
    names = [k for k, v in W.items() if v > 0]
    wts = [W[k] for k in names]

    def spot_of_someone(m):
        """The current position (in the trace's units) of some agent in model m's world, read from the live objects."""
        try:
            cands = [ag for ag in d.env(m) if PositionComponent in ag]
            if not cands:
                return None
            pc = rng.choice(cands)[PositionComponent]
            u = [d.to_units(m, v) for v in (pc.x, pc.y, pc.z)]
            return None if any(x == BAD for x in u) else u
        except Exception:  # noqa: BLE001
            return None

    def resident(a):
        return d.where(a) is not None

    for step_no in range(length):
        if completes and rng.random() < 0.04:
            do(["complete_model", rng.choice(list(worlds))])
        if pending_install and (rng.random() < 0.12 or step_no == length - 3):
            do(["install", pending_install.pop()])
        m = rng.choice(list(worlds))
        cls, ext, wrap = worlds[m]
        fine = cls == "space"
        op = rng.choices(names, wts)[0]
        a = rng.choice(objs[m])
        if op == "agent":
            if len(objs[m]) < 8:
                new_agent(m)
        elif op == "attach":
            T = rng.choice(LISTED)
            res = resident(a)
            if res and mods == "clean":
                continue
            reg = res and (mods == "sanctioned" or rng.random() < 0.5)
            cser[0] += 1
            do(["attach", a, T, cser[0], reg])
        elif op == "detach" and mods in ("any", "raw", "sanctioned") and resident(a) and rng.random() < 0.3:
            # a resident swaps a component for a fresh instance of the same type: detach the old one, attach and register the new one
            have = [t for t in LISTED if TYPES[t] in d.agents[tuple(a)]]
            if have:
                T = rng.choice(have)
                do(["detach", a, T, mods == "sanctioned"])
                cser[0] += 1
                do(["attach", a, T, cser[0], True])
        elif op == "detach":
            T = rng.choice(LISTED)
            res = resident(a)
            if res and mods == "clean":
                continue
            dereg = res and (mods == "sanctioned" or rng.random() < 0.5)
            do(["detach", a, T, dereg])
        elif op == "raw":
            # the low-level calls on their own, for agents in (or bound for) their own model's environment, resident or not
            have = [t for t in LISTED if TYPES[t] in d.agents[tuple(a)]]
            if d.where(a) in (None, m) and have:
                do([rng.choice(["register_raw", "register_raw", "deregister_raw"]), a, rng.choice(have)])
        elif op == "register":
            T = rng.choice(LISTED)
            if resident(a) and TYPES[T] in d.agents[tuple(a)]:
                do(["register", a, T])
        elif op == "join":
            if guests and not resident(a) and rng.random() < 0.25:
                tm = rng.choice(list(worlds))          # an agent built for one model joins the environment of another
                tcls, text, _ = worlds[tm]
                tp = None if tcls == "plain" else [rng.randint(0, max(e - (0 if tcls == "space" else 1), 0)) if e else 0 for e in text]
                do(["join", a, tp, tm])
                continue
            if d.where(a) not in (None, m):
                continue        # resident in another model's environment: one environment at a time
            p = None if cls == "plain" else [rng.choice(coord_pool(e, fine)) if rng.random() < 0.45 else
                                               (rng.randint(0, max(e - (0 if fine else 1), 0)) if e else 0) for e in ext]
            if p is not None and rng.random() < 0.2:
                p = spot_of_someone(m) or p          # exactly where another agent stands
            do(["join", a, p] if rng.random() < 0.7 else ["join", a, p, None, True])
        elif op == "leave":
            do(["leave", m, rng.choice(ids + ["nobody"]) if rng.random() < 0.5 else a[0]])
        elif op == "lookup":
            do(["lookup", m, rng.choice(ids + ["nobody"]), rng.random() < 0.5])
        elif op == "move" and cls != "plain":
            dd = [rng.choice(delta_pool(e, fine)) if rng.random() < 0.6 else 0 for e in ext]
            do(["move", a, dd])
            if rng.random() < 0.25:
                # the same step again after the agent was put somewhere else by an absolute move
                p2 = [(rng.randint(0, max(e - (0 if fine else 1), 0)) if e else 0) for e in ext]
                do(["move_to", a, p2])
                do(["move", a, dd])
        elif op == "move_to" and cls != "plain":
            p = [rng.choice(coord_pool(e, fine)) if rng.random() < 0.5 else
                 (rng.randint(0, max(e - (0 if fine else 1), 0)) if e else 0) for e in ext]
            if rng.random() < 0.2:
                p = spot_of_someone(m) or p
            do(["move_to", a, p])
        elif op == "agents_at" and cls != "plain":
            q = [rng.choice(coord_pool(e, fine)[:9]) for e in ext]
            lw = [-1, 0, 0, 1, 2, 4, 7]
            spot = spot_of_someone(m) if rng.random() < 0.25 else None
            if spot is not None:
                do(["agents_at", m, spot, 0, [0, 0, 0]])          # who stands exactly here?
                continue
            if not fine and rng.random() < 0.4:      # grid world: fractional query point / leeways, in quarter cells
                lw4 = [-2, 0, 1, 2, 3, 4, 6, 10]
                do(["agents_at", m, [4 * v + rng.choice([0, 0, 1, 2, 3, -2]) for v in q], rng.choice(lw4), [rng.choice(lw4) for _ in range(3)], True])
            else:
                do(["agents_at", m, q, rng.choice(lw), [rng.choice(lw) for _ in range(3)]])
        elif op in ("get_agents", "pick", "shuffle"):
            tpl = rng.sample(["A", "B", "C", "D", "E", "Z"], rng.choice([0, 0, 1, 1, 2, 3]))
            if tpl and rng.random() < 0.2:
                tpl = tpl + [rng.choice(tpl)]            # a template may name a type twice
            tag = rng.choice([None, None, 5] + [t for t in tags if t is not None])
            if op == "pick":
                do(["pick", m, tpl, tag, nseeds])
            else:
                do([op, m, tpl, tag])
    return prog, d.events


def crowd_program(rng, n_agents=14, length=70):
    """One plain model, many carriers of the same component type (some carry a second one): the population grows beyond ten,
    shrinks to a handful and grows again, with joins and leaves in between (listings of more than a few entries)."""
    prog = [["model", "m1", "plain", [0, 0, 0], False]]
    ser = 0
    agents = []
    for k in range(n_agents):
        a = ["c%d" % k, 1]
        agents.append(a)
        prog.append(["agent", a, "m1", None])
        ser += 1
        prog.append(["attach", a, "A", ser, False])
        if k % 3 == 0:
            ser += 1
            prog.append(["attach", a, "B", ser, False])
    inside = []
    target = n_agents - 2
    for step in range(length):
        if step == length // 3:
            target = 4
        if step == 2 * length // 3:
            target = n_agents - 1
        grow = len(inside) < target if rng.random() < 0.8 else rng.random() < 0.5
        if grow and len(inside) < n_agents:
            a = rng.choice([x for x in agents if x not in inside])
            inside.append(a)
            prog.append(["join", a, None])
        elif inside:
            a = rng.choice(inside)
            inside.remove(a)
            prog.append(["leave", "m1", a[0]])
    return prog


def tamper(trace, rng):
    """Corrupt one observation so that a real trace no longer matches the specification state."""
    cands = [k for k, e in enumerate(trace) if e["obs"]["models"] and any(M["env"] for M in e["obs"]["models"])]
    if not cands:
        return None
    k = rng.choice(cands)
    M = next(M for M in trace[k]["obs"]["models"] if M["env"])
    r = rng.random()
    if r < 0.4 and len(M["env"]) > 1:
        M["env"] = M["env"][::-1]
        M["all"] = M["all"][::-1]
        if M["env"] == M["env"][::-1]:
            M["len"] += 1
    elif r < 0.7:
        M["len"] += 1
    else:
        for g in M["listing"]:
            if g["entries"]:
                g["entries"] = g["entries"][:-1]
                if not g["entries"]:
                    g["form"], g["strict"] = "None", "KeyError"
                return trace
        M["env"] = M["env"][:-1]
        M["all"] = M["all"][:-1]
    return trace


# ---------------------------------------------------------------------------
# spec -> code: a walk of TLC's state graph of MC_World (edge labels = action + arguments) as a program
# ---------------------------------------------------------------------------
def program_from_walk(walk, probe=None, salt=0):
    prog = []
    kinds = {}
    homes = {}

    def add(op):
        prog.append(op)
        if probe:
            prog.extend(probe(op, kinds, homes, len(prog)))

    for name, args in walk:
        if name == "NewModel":
            m, w = args
            ext = list(w["ext"])
            if w["kind"] == "plain":
                cls = "plain"
            elif w["kind"] == "space":
                cls = "space"
            else:
                cls = "discrete"
                if ext[1] == 0 and ext[2] == 0 and ext[0] >= 1 and (salt + len(prog)) % 2:
                    cls = "line"
                elif ext[2] == 0 and ext[0] >= 1 and ext[1] >= 1 and (salt + len(prog)) % 2:
                    cls = "grid2d"
            kinds[m] = cls
            add(["model", m, cls, ext, bool(w["wrap"])])
        elif name == "NewAgent":
            a, m, tg = args
            homes[tuple(a)] = m
            add(["agent", list(a), m, None if (tg == 0 and (salt + len(prog)) % 2) else tg])
        elif name in ("Join", "OfferJoin"):
            a, m, p = args[0], args[1], args[2]
            add(["join", list(a), list(p) if p else None, m])
        elif name == "JoinRejectedDup":
            a, m = args[0], args[1]
            add(["join", list(a), None if kinds[m] == "plain" else [0, 0, 0], m])
        elif name == "JoinRejectedOOB":
            add(["join", list(args[0]), list(args[2]), args[1], (salt + len(prog)) % 2 == 0])
        elif name in ("Leave", "LeaveRejected", "LeaveZombie"):
            add(["leave", args[0], args[1]])
        elif name in ("Attach", "OfferAttach"):
            a, T, s, reg = args[0], args[1], args[2], args[3]
            add(["attach", list(a), T, s, bool(reg)])
        elif name == "AttachRejected":
            add(["attach", list(args[0]), args[1], 99, False])
        elif name in ("Detach", "OfferDetach"):
            add(["detach", list(args[0]), args[1], bool(args[2])])
        elif name == "DetachRejected":
            add(["detach", list(args[0]), args[1], False])
        elif name in ("RegisterManual", "RegisterRejected"):
            add(["register", list(args[0]), args[1]])
        elif name in ("Move", "OfferMove"):
            add(["move", list(args[0]), list(args[1])])
        elif name == "MoveRejected":
            if kinds[homes[tuple(args[0])]] != "plain":
                add(["move", list(args[0]), [1, 0, 0]])
        elif name in ("MoveTo", "MoveToRejected"):
            if kinds[homes[tuple(args[0])]] != "plain":
                add(["move_to", list(args[0]), list(args[1])])
        else:
            raise AssertionError("unknown spec action " + name)
    return prog


def carrier_programs(n_agents, cls_ext_wrap=("plain", [0, 0, 0], False), limit=None, rng=None):
    """n agents that all carry A (every second one also C, every third B) join; then they leave in every order
    (each permutation one program), the first leaver re-joins at the end.  Listing order must follow joining order."""
    import itertools
    cls, ext, wrap = cls_ext_wrap
    ids = ["x", "y", "z", "w", "v", "u"][:n_agents]
    perms = list(itertools.permutations(range(n_agents)))
    if limit and len(perms) > limit:
        perms = rng.sample(perms, limit)
    out = []
    for perm in perms:
        prog = [["model", "m1", cls, ext, wrap], ["model", "m2", "plain", [0, 0, 0], False]]
        ser = 0
        for k, i in enumerate(ids):
            prog.append(["agent", [i, 1], "m1", None])
            for T, every in (("A", 1), ("C", 2), ("B", 3)):
                if k % every == 0:
                    ser += 1
                    prog.append(["attach", [i, 1], T, ser, False])
        for k, i in enumerate(ids):
            prog.append(["join", [i, 1], None if cls == "plain" else [k % max(ext[0], 1), 0, 0]])
        for k in perm:
            prog.append(["leave", "m1", ids[k]])
        prog.append(["join", [ids[perm[0]], 1], None if cls == "plain" else [0, 0, 0]])
        out.append(prog)
    return out
