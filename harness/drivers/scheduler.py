"""Drives the real ECAgent scheduler (Model / SystemManager / System) and records traces in the
vocabulary of spec/Scheduler_Trace.tla.  No expectation is computed here."""
import os
import sys

from . import common  # noqa: F401  (puts /repo on sys.path)
from ECAgent.Core import Model, System, SystemNotFoundError, ModelCompleteError

FOREVER = 999999
ALIAS = [False]      # drift runner: call the deprecated camelCase aliases instead of their replacements


def _end_to_py(e):
    return sys.maxsize if e >= FOREVER else e


def _end_from_py(e):
    return FOREVER if e >= sys.maxsize else e


class _Idle(System):
    """A system of the shadow model: does nothing."""

    def execute(self):
        pass


def outcome(exc):
    if exc is None:
        return "ok"
    for cls, name in ((ModelCompleteError, "ModelCompleteError"), (SystemNotFoundError, "SystemNotFoundError"),
                      (KeyError, "KeyError"), (TypeError, "TypeError"), (ValueError, "ValueError")):
        if isinstance(exc, cls):
            return name
    return "Unexpected:" + type(exc).__name__


class Scripted(System):
    """A system that logs its own execution and then performs its script through the public API."""

    def __init__(self, world, obj, prio, start, end, freq, script):
        # every third object is a "bridge" system bound to ANOTHER (running) model although it is registered with this one
        owner = world.model if obj[1] % 3 else Model()
        super().__init__(obj[0], owner, priority=prio, frequency=freq, start=start, end=_end_to_py(end))
        self.world = world
        self.obj = obj
        self.script = script

    def execute(self):
        w = self.world
        w.events.append({"op": "run", "obj": list(self.obj), "t": w.model.systems.timestep})
        for act in self.script:
            kind = act[0]
            if kind == "remove":
                w.remove(act[1])
            elif kind == "clean_up":
                w.remove(self.id, via=self if self.model is w.model else None)
            elif kind == "add":
                _, obj, prio, win, script = act
                w.add(tuple(obj), prio, tuple(win), script)
            elif kind == "complete":
                w.complete()
                if getattr(w, "shadow", None) is not None:
                    w.shadow.complete()        # the same system then ends the other model of the program as well
            elif kind == "other_step":
                if getattr(w, "shadow", None) is not None:
                    w.shadow.execute()         # another model is stepped from inside this model's timestep
            elif kind == "w":          # an operation on the population / the spatial world, performed in the middle of the timestep
                getattr(w.world, "op_" + act[1])(*act[2:])


from ECAgent.Collectors import Collector, FileCollector  # noqa: E402


class ScriptedCollector(Collector):
    """The same scripted system, built on ECAgent.Collectors.Collector (collectors are systems: same window, same order)."""

    def __init__(self, world, obj, prio, start, end, freq, script):
        Collector.__init__(self, obj[0], world.model, priority=prio, frequency=freq, start=start, end=_end_to_py(end))
        self.world = world
        self.obj = obj
        self.script = script

    collect = Scripted.execute


class ScriptedFileCollector(FileCollector):
    """The same scripted system once more, built on FileCollector the way ECAgent's own collectors forward their arguments:
    by position (id, model, filename, priority, frequency, start, end)."""

    def __init__(self, world, obj, prio, start, end, freq, script):
        FileCollector.__init__(self, obj[0], world.model, os.devnull, prio, freq, start, _end_to_py(end))
        self.world = world
        self.obj = obj
        self.script = script

    collect = Scripted.execute


class SchedWorld:
    def __init__(self, ids, seed=None, logger=None, model=None, events=None, world=None):
        self.world = world          # a harness.drivers.world.Driver whose operations scripts may call (composition)
        self.conf = {}              # object -> the configuration this driver last gave it
        if model is not None:
            self.model = model
        elif logger == "quiet":
            import logging
            lg = logging.getLogger("verif.quiet")       # a user-supplied logger that is not enabled for INFO
            lg.setLevel(logging.WARNING)
            self.model = Model(seed=seed, logger=lg)
        else:
            self.model = Model(seed=seed)
        self.ids = list(ids)
        self.objects = {}      # (id, serial) -> Scripted
        self.events = [] if events is None else events

    # ---- projection through the public API ----
    def obs(self):
        m = self.model
        registered = []
        for i in self.ids:
            s = m.systems[i]
            if s is not None:
                serial = -1
                for (oid, ser), inst in self.objects.items():
                    if inst is s:
                        serial = ser
                registered.append([i, serial])
        return {"clock": m.systems.timestep, "mclock": m.timestep, "running": bool(m.is_running()),
                "truthy": bool(m), "registered": registered}

    def _t(self):
        return self.model.systems.timestep

    # ---- operations ----
    def add(self, obj, prio, win, script=()):
        obj = tuple(obj)
        start, end, freq = win
        inst = self.objects.get(obj)
        real_prio = prio + getattr(self, "prio_offset", 0)      # see op "prio_offset": the same order, other magnitudes
        if inst is None or self.model.systems[obj[0]] is not inst:
            # a system object that is not registered: (re)configure it
            if inst is None:
                inst = (ScriptedCollector if obj[1] % 4 == 2 else ScriptedFileCollector if obj[1] % 4 == 0 else Scripted)(self, obj, real_prio, start, end, freq, script)
                self.objects[obj] = inst
                if obj[0] not in self.ids:
                    self.ids.append(obj[0])
            elif self.conf.get(obj) != (prio, start, end, freq):
                # a changed configuration is written to the object; an unchanged one leaves the object exactly as the
                # library left it when the system was let go
                inst.priority, inst.start, inst.end, inst.frequency = real_prio, start, _end_to_py(end), freq
                inst.script = script
            else:
                inst.script = script
            self.conf[obj] = (prio, start, end, freq)
        self.nadd = getattr(self, "nadd", 0) + 1
        if getattr(self, "shadow", None) is not None and self.nadd % 2 == 0:
            try:
                self.shadow.systems.add_system(_Idle(obj[0], self.shadow, priority=-prio, frequency=freq + 1, start=start + 1,
                                                     end=_end_to_py(end)))
            except KeyError:
                pass
        exc = None
        t = self._t()
        try:
            (self.model.systems.addSystem if ALIAS[0] else self.model.systems.add_system)(inst)
        except Exception as e:  # noqa: BLE001
            exc = e
        if getattr(self, "shadow", None) is not None and self.nadd % 2 == 1:
            # another model, alive at the same time, registers a system under the SAME id with a shifted window and other priority
            # (after this model's registration here, before it for every other registration)
            try:
                self.shadow.systems.add_system(_Idle(obj[0], self.shadow, priority=-prio, frequency=freq + 1, start=start + 1,
                                                     end=_end_to_py(end)))
            except KeyError:
                pass
        self.events.append({"op": "add_system", "obj": list(obj), "prio": prio, "start": start, "end": end,
                            "freq": freq, "t": t, "out": outcome(exc), "obs": self.obs()})

    def churn(self, sid, n):
        """The registered system `sid` is removed and registered again n times in a row (a seasonal system switched off and on):
        after the first round trip the registry is the same after every further one, so only the last is logged."""
        inst = self.model.systems[sid]
        if inst is None:
            return
        obj = next((o for o, i in self.objects.items() if i is inst), None)
        if obj is None:
            return
        for _ in range(max(n - 1, 0)):
            self.model.systems.remove_system(sid)
            self.model.systems.add_system(inst)
        self.remove(sid)
        self.add(obj, inst.priority - getattr(self, "prio_offset", 0), (inst.start, _end_from_py(inst.end), inst.frequency), inst.script)

    def remove(self, sid, via=None):
        exc = None
        t = self._t()
        try:
            if via is not None:
                via.clean_up()
            else:
                (self.model.systems.removeSystem if ALIAS[0] else self.model.systems.remove_system)("".join(list(sid)))   # equal, not identical
        except Exception as e:  # noqa: BLE001
            exc = e
        self.events.append({"op": "remove_system", "id": sid, "t": t, "out": outcome(exc), "obs": self.obs()})

    def complete(self):
        exc = None
        t = self._t()
        try:
            self.model.complete()
        except Exception as e:  # noqa: BLE001
            exc = e
        self.events.append({"op": "complete", "t": t, "out": outcome(exc), "obs": self.obs()})

    def execute(self, n=1, via="execute"):
        if getattr(self, "shadow", None) is not None:
            self.nexec = getattr(self, "nexec", 0) + 1
            if self.nexec % 2 == 0:
                # the other model changes its own system set between two steps of this one
                self.shadow.systems.add_system(_Idle("only-there-%d" % self.nexec, self.shadow, priority=self.nexec % 3))
            self.shadow.execute()          # the other model is stepped in between
        self.events.append({"op": "exec_begin", "n": n, "via": via})
        exc = None
        try:
            if via == "execute":
                self.model.execute(n) if n != 1 else self.model.execute()
            elif via == "execute_systems":
                (self.model.systems.executeSystems if ALIAS[0] else self.model.systems.execute_systems)()
            elif via == "throw":
                self.model.systems.execute_systems(throw_error=True)
            elif via == "throw1":          # a truthy flag that is not the literal True
                self.nthrow = getattr(self, "nthrow", 0) + 1
                if self.nthrow % 2:
                    self.model.systems.execute_systems(throw_error=1)
                else:
                    self.model.systems.execute_systems(True)          # the flag given by position
            else:
                raise AssertionError(via)
        except Exception as e:  # noqa: BLE001
            exc = e
        self.events.append({"op": "exec_end", "throw": via in ("throw", "throw1"), "out": outcome(exc), "obs": self.obs()})

    def lookup(self, sid, strict):
        exc = None
        res = ["None", 0]
        try:
            r = self.model.systems[(sid, True)] if strict else self.model.systems[sid]
            if r is not None:
                res = [sid, next((ser for (oid, ser), inst in self.objects.items() if inst is r), -1)]
        except Exception as e:  # noqa: BLE001
            exc = e
        self.events.append({"op": "lookup_system", "id": sid, "strict": bool(strict), "res": res, "out": outcome(exc)})

    BAD_N = {"float": 1.0, "float2": 2.5, "str": "1", "none": None, "zero": 0, "neg": -1, "neg2": -3}

    def exec_reject(self, kind):
        exc = None
        try:
            self.model.execute(self.BAD_N[kind])
        except Exception as e:  # noqa: BLE001
            exc = e
        k = "zero" if kind == "zero" else "neg" if kind.startswith("neg") else kind
        self.events.append({"op": "exec_reject", "kind": k, "out": outcome(exc), "obs": self.obs()})


# ---------------------------------------------------------------------------
# programs: JSON-able operation lists; run_program executes one on fresh real objects
#   ["add", [id, serial], prio, [start, end, freq], script]   script = list of nested acts:
#        ["remove", id] | ["clean_up"] | ["add", obj, prio, win, script] | ["complete"]
#   ["remove", id] | ["complete"] | ["exec", n, via] | ["reject", kind]
# ---------------------------------------------------------------------------
ALWAYS = [0, FOREVER, 1]


def run_program(prog):
    logger = prog[0][1] if prog and prog[0][0] == "logger" else None
    w = SchedWorld(program_ids(prog), logger=logger)
    for op in prog:
        k = op[0]
        if k == "logger":
            continue
        if k == "add":
            w.add(tuple(op[1]), op[2], tuple(op[3]), op[4])
        elif k == "remove":
            w.remove(op[1])
        elif k == "complete":
            w.complete()
        elif k == "exec":
            w.execute(op[1], op[2])
        elif k == "reject":
            w.exec_reject(op[1])
        elif k == "lookup":
            w.lookup(op[1], op[2])
        elif k == "churn":
            w.churn(op[1], op[2])
        elif k == "shadow":
            w.shadow = Model()
        elif k == "prio_offset":
            w.prio_offset = op[1]          # every priority of this program is shifted by this constant
        else:
            raise AssertionError(op)
    return w.events


def program_ids(prog):
    ids = []

    def walk(op):
        if op[0] == "add":
            if op[1][0] not in ids:
                ids.append(op[1][0])
            for a in op[4]:
                walk(a)
        elif op[0] == "remove" and op[1] not in ids:
            ids.append(op[1])
    for op in prog:
        walk(op)
    return ids


# ---------------------------------------------------------------------------
# random histories (code -> spec)
# ---------------------------------------------------------------------------
def random_window(rng, wide=False):
    r = rng.random()
    if r < 0.45:
        return list(ALWAYS)
    start = rng.choice([-5, -2, -1, 0, 0, 1, 2, 3, 7, 10] if wide else [-2, 0, 1, 3])
    er = rng.random()
    if er < 0.3:
        end = FOREVER
    elif er < 0.4:
        end = start - rng.randint(1, 3)
    else:
        end = start + rng.randint(0, 9 if wide else 4)
    return [start, end, rng.randint(1, 5 if wide else 3)]


def random_script(rng, ids, serial_of, p_mut):
    if rng.random() >= p_mut:
        return []
    acts = []
    if rng.random() < 0.3:
        acts.append(["other_step"])        # first lets the other model of the program (if there is one) do a timestep
    for _ in range(1 if rng.random() < 0.8 else 2):
        r = rng.random()
        if r < 0.35:
            acts.append(["remove", rng.choice(ids)])
        elif r < 0.5:
            acts.append(["clean_up"])
        elif r < 0.9:
            i = rng.choice(ids)
            acts.append(["add", [i, serial_of(i)], rng.randint(-2, 2), list(ALWAYS), []])
        else:
            acts.append(["complete"])
    return acts


def random_program(rng, *, n_ids=5, prios=(-2, -1, 0, 1, 2), length=30, p_mut=0.0, p_complete=0.02,
                   windows=False, wide=False, multi=True):
    ids = [chr(ord("a") + k) for k in range(n_ids)]
    if n_ids >= 3:
        ids[2] = ""            # identifiers are strings - the empty one included
    serials = {i: 1 for i in ids}
    prog = [["logger", "quiet"]] if rng.random() < 0.3 else []
    if rng.random() < 0.3:
        prog.append(["shadow"])
    if rng.random() < 0.15 and max(abs(p) for p in prios) < 10 ** 6:
        # arbitrary integer priorities: the same histories far away from zero, where neighbouring integers are no longer
        # distinct as floating-point numbers
        prog.append(["prio_offset", rng.choice([2 ** 62, -(2 ** 62), 2 ** 53, sys.maxsize - 100])])

    def serial_of(i):
        # mostly re-use object 1, sometimes a fresh object with the same id
        if rng.random() < 0.25:
            serials[i] += 1
        return rng.randint(1, serials[i])

    for _ in range(length):
        r = rng.random()
        if r < 0.40:
            i = rng.choice(ids)
            win = random_window(rng, wide) if windows else list(ALWAYS)
            prog.append(["add", [i, serial_of(i)], rng.choice(prios), win, random_script(rng, ids, serial_of, p_mut)])
        elif r < 0.55:
            prog.append(["remove", rng.choice(ids)])
            if rng.random() < 0.03:
                prog.append(["churn", rng.choice(ids), rng.choice([5000, 70000])])
        elif r < 0.55 + p_complete:
            prog.append(["complete"])
        elif r < 0.62 and multi:
            prog.append(["reject", rng.choice(sorted(SchedWorld.BAD_N))])
        else:
            via = rng.choice(["execute", "execute", "execute_systems", "throw", "throw1"])
            n = rng.choice([1, 1, 2, 3, 4]) if (via == "execute" and multi) else 1
            prog.append(["exec", n, via])
    return prog


def permutation_programs(rng, n_sys=4, prios=(-1, 0, 1), steps=2, limit=None):
    """Every registration order of the same set of systems x every priority assignment (C01)."""
    import itertools
    ids = [chr(ord("a") + k) for k in range(n_sys)]
    out = []
    for pr in itertools.product(prios, repeat=n_sys):
        for perm in itertools.permutations(range(n_sys)):
            # the systems are of mixed kinds: plain systems, collectors, file collectors (serial 2 / 4, see SchedWorld.add)
            prog = [["add", [ids[k], (1, 2, 4, 1, 1)[(k + len(out)) % 5]], pr[k], list(ALWAYS), []] for k in perm]
            prog.append(["exec", steps, "execute"])
            out.append(prog)
    if limit and len(out) > limit:
        out = rng.sample(out, limit)
    return out


# ---------------------------------------------------------------------------
# the C05 scenario product: (registered systems with priorities) x (script of each actor)
# ---------------------------------------------------------------------------
def c05_programs(n_sys, prios, new_prios, steps=2, two_actors=False):
    import itertools
    ids = [chr(ord("a") + k) for k in range(n_sys)]
    base = [["complete"], ["clean_up"]] + [["remove", i] for i in ids] + \
           [["add", ["n", 1], p, list(ALWAYS), []] for p in new_prios]
    for pr in itertools.product(prios, repeat=n_sys):
        prio_of = dict(zip(ids, pr))
        # remove x then register a NEW object with the same id / the SAME object again
        re_new = [[["remove", i], ["add", [i, 2], prio_of[i], list(ALWAYS), []]] for i in ids]
        re_same = [[["remove", i], ["add", [i, 1], prio_of[i], list(ALWAYS), []]] for i in ids]
        # two changes of the system set by ONE running system: two removals (either order), a registration followed by a removal
        two = [[["remove", i], ["remove", j]] for i in ids for j in ids if i != j] + \
              [[["add", ["n", 1], p, list(ALWAYS), []], ["remove", i]] for p in new_prios for i in ids] + \
              [[["clean_up"], ["remove", i]] for i in ids]
        scripts = [[b] for b in base] + re_new + re_same + two
        for actor in range(n_sys):
            for sc in scripts:
                yield _c05_prog(ids, pr, {actor: sc}, steps)
        if two_actors:
            simple = [[b] for b in base]
            for a1, a2 in itertools.permutations(range(n_sys), 2):
                for s1 in simple:
                    for s2 in simple[1:]:
                        yield _c05_prog(ids, pr, {a1: s1, a2: s2}, steps)


def _c05_prog(ids, pr, actor_scripts, steps):
    prog = [["add", [i, 1], pr[k], list(ALWAYS), actor_scripts.get(k, [])] for k, i in enumerate(ids)]
    prog += [["exec", 1, "execute_systems"] for _ in range(steps)]
    return prog


# ---------------------------------------------------------------------------
# spec -> code: a walk of TLC's state graph of MC_Scheduler (edge labels = action + arguments) as a program
# ---------------------------------------------------------------------------
def program_from_walk(walk):
    prog = []
    for name, args in walk:
        if name == "TopAdd":
            o, p, win, sc = args
            prog.append(["add", list(o), p, [win["start"], win["end"], win["freq"]], _script_from_spec(sc)])
        elif name == "TopAddRejected":
            # the spec offers the object; registering it (or a twin with the same id) again must be rejected
            prog.append(["add", list(args[0]), 0, list(ALWAYS), []])
        elif name in ("TopRemove", "TopRemoveRejected"):
            prog.append(["remove", args[0]])
        elif name == "TopComplete":
            prog.append(["complete"])
        elif name == "Request":
            n = args[0]
            prog.append(["exec", n, "execute" if n != 1 else ("execute", "execute_systems", "throw")[len(prog) % 3]])
        elif name not in ("BeginStep", "Visit", "EndStep", "StepWhenComplete"):
            raise AssertionError("unknown spec action " + name)
        # BeginStep / Visit / EndStep / StepWhenComplete are the inside of the request just made
    return prog


def _script_from_spec(sc):
    k = sc["kind"]
    if k == "nop":
        return []
    if k == "complete":
        return [["complete"]]
    if k == "remove":
        return [["remove", sc["rid"]]]
    if k == "add":
        return [["add", list(sc["aobj"]), sc["ap"], list(ALWAYS), []]]
    raise AssertionError(k)


# ---------------------------------------------------------------------------
# tamper controls: a corrupted copy of a real trace must be rejected by the trace specification
# ---------------------------------------------------------------------------
def tamper(trace, rng):
    runs = [k for k, e in enumerate(trace) if e["op"] == "run"]
    ends = [k for k, e in enumerate(trace) if e["op"] == "exec_end" and e["out"] == "ok" and e["obs"]["running"]]
    choice = rng.random()
    if runs and choice < 0.4:
        k = rng.choice(runs)          # a system "runs twice"
        return trace[:k + 1] + [dict(trace[k])] + trace[k + 1:]
    if ends:
        k = rng.choice(ends)          # the clock reported after a request is off by one
        trace[k]["obs"]["clock"] += 1
        trace[k]["obs"]["mclock"] += 1
        return trace
    adds = [k for k, e in enumerate(trace) if e["op"] == "add_system" and e["out"] == "ok"]
    if adds:
        k = rng.choice(adds)          # a successful registration reported as rejected
        trace[k]["out"] = "KeyError"
        return trace
    return None
