"""Drives a real Model with a scripted population system and real AgentCollector / FileCollector objects (real files in a
temporary directory) and records traces for spec/Collectors_Trace.tla.  No expectation is computed here.

Program: {"acs": [{name,start,end,freq,fkind,comp,incl}], "fcs": [{name,start,end,freq,wc,plan}], "first": "pop"|"collectors",
          "ops": [["between", [[kind,id]..]] | ["step", [[kind,id]..]] ...]}          kind: join | leave | touch
"""
import copy
import os
import shutil
import sys
import tempfile

from . import common  # noqa: F401
from ECAgent.Core import Model, Agent, Component, System, Environment
from ECAgent.Collectors import AgentCollector, FileCollector

FOREVER = 999999
MAXVAL = 2


class Val(Component):
    def __init__(self, agent, model):
        super().__init__(agent, model)
        self.v = 0


def _end(e):
    return sys.maxsize if e >= FOREVER else e


def apply_pop(model, ops):
    env = model.environment
    for kind, i in ops:
        try:
            if kind == "join":
                a = Agent(i, model)
                a.add_component(Val(a, model))
                env.add_agent(a)
            elif kind == "leave":
                env.remove_agent(i)
            elif kind == "touch":
                a = env.get_agent(i)
                if a is not None:
                    a[Val].v = (a[Val].v + 1) % (MAXVAL + 1)
        except Exception:  # noqa: BLE001
            pass        # duplicate join / unknown leave: documented errors, nothing changes (C04)


class Founder(System):
    """Runs before everything else; at timestep `when` it unregisters itself (clean_up) - the collectors behind it must not notice."""

    def __init__(self, model, when):
        super().__init__("founder", model, priority=0)
        self.when = when

    def execute(self):
        if self.model.systems.timestep == self.when:
            self.clean_up()


class Lead(System):
    """An ordinary system that does nothing (registered ahead of the collectors)."""

    def execute(self):
        pass


class PopSystem(System):
    def __init__(self, model):
        super().__init__("pop", model, priority=0)
        self.todo = []

    def execute(self):
        apply_pop(self.model, self.todo)
        self.todo = []


FKINDS = {
    "value": lambda a: a[Val].v,
    "const7": lambda a: 7,
    "odd_none": lambda a: a[Val].v if a[Val].v % 2 == 0 else None,
    "none": lambda a: None,
}
def _total_shared():
    """A composite function that keeps ONE dictionary, updates it in place and returns the same object every time."""
    d = {}

    def f(agents):
        d["total"] = sum(a[Val].v for a in agents.values())
        d["n"] = len(agents)
        return d
    return f


COMPS = {
    "nofunc": None,
    "ret_none": lambda agents: None,
    "empty": lambda agents: {},
    "total": lambda agents: {"total": sum(a[Val].v for a in agents.values()), "n": len(agents)},
}


class LineFile(FileCollector):
    """A file collector whose collection at timestep t consists of plan[t mod len(plan)] self-identifying lines."""

    def __init__(self, id, model, filename, plan, positional=False, **kw):
        if positional:
            # forwards the scheduling arguments by position, as ECAgent's own collectors do
            super().__init__(id, model, filename, kw.pop("priority", -1), kw.pop("frequency", 1), kw.pop("start", 0),
                             kw.pop("end", sys.maxsize), **kw)
        else:
            super().__init__(id, model, filename, **kw)
        self.plan = plan

    def collect(self):
        t = self.model.systems.timestep
        for j in range(1, self.plan[t % len(self.plan)] + 1):
            self.records.append("%d.%d\n" % (t, j))


def _lines(text_or_list):
    out = []
    items = text_or_list.splitlines() if isinstance(text_or_list, str) else [x.strip() for x in text_or_list]
    for ln in items:
        try:
            t, j = ln.split(".")
            out.append([int(t), int(j)])
        except Exception:  # noqa: BLE001
            out.append([-1, -1])
    return out


def run_program(prog):
    tmp = tempfile.mkdtemp(prefix="verif-coll-")
    try:
        return _run(prog, tmp)
    finally:
        shutil.rmtree(tmp, ignore_errors=True)


def _run(prog, tmp):
    m = Model()
    pop = PopSystem(m)
    acs, fcs = {}, {}

    def make_collectors():
        for a in prog["acs"]:
            comp = _total_shared() if a["comp"] == "total_shared" else COMPS[a["comp"]]
            c = AgentCollector(m, FKINDS[a["fkind"]], comp, a["incl"], id=a["name"], frequency=a["freq"],
                               start=a["start"], end=_end(a["end"]))
            m.systems.add_system(c)
            acs[a["name"]] = c
        for f in prog["fcs"]:
            c = LineFile(f["name"], m, os.path.join(tmp, f["name"] + ".txt"), f["plan"], positional=(f["wc"] + f["freq"]) % 2 == 1,
                         frequency=f["freq"], start=f["start"], end=_end(f["end"]), write_count=f["wc"])
            m.systems.add_system(c)
            fcs[f["name"]] = c

    if prog.get("founder") is not None:
        m.systems.add_system(pop)
        m.systems.add_system(Founder(m, prog["founder"]))      # same priority as pop, registered after it: directly before the collectors
        make_collectors()
    elif prog.get("first") == "between":
        # the collectors are registered between two ordinary systems: an idle one first, the population-changing one last
        m.systems.add_system(Lead("lead", m, priority=0))
        make_collectors()
        m.systems.add_system(pop)
    elif prog.get("first") == "collectors":
        make_collectors()
        m.systems.add_system(pop)
        if prog.get("replace_env"):
            m.set_environment(Environment(m))       # the (still unpopulated) environment is replaced after the collectors were built
    else:
        m.systems.add_system(pop)
        make_collectors()

    if prog.get("dup_collector") and acs:
        first = next(iter(acs))
        try:
            m.systems.add_system(AgentCollector(m, FKINDS["const7"], None, False, id=first))
        except KeyError:
            pass            # documented: identifier already in use (C01); the registered collector is untouched

    def obs():
        envl = [[a.id, a[Val].v] for a in m.environment]
        recs = []
        for n, c in acs.items():
            rl = []
            for r in copy.deepcopy(c.records):
                rl.append([[str(k), int(v) if isinstance(v, int) else -99999] for k, v in r.items()])
            recs.append([n, rl])
        files = []
        for n, c in fcs.items():
            text = open(c.filename).read() if os.path.exists(c.filename) else ""
            files.append([n, _lines(text), _lines(list(c.records))])
        return {"clock": m.systems.timestep, "env": envl, "records": recs, "files": files}

    # another model of the same program, alive at the same time: another population, its own collectors built from the SAME
    # functions; it is stepped right before this one every time
    other = Model()
    for k in range(3):
        oa = Agent("o%d" % k, other)
        ov = Val(oa, other)
        ov.v = 1000 + k
        oa.add_component(ov)
        other.environment.add_agent(oa)
    for a in prog["acs"]:
        comp = COMPS.get(a["comp"]) if a["comp"] != "total_shared" else None
        other.systems.add_system(AgentCollector(other, FKINDS[a["fkind"]], comp, a["incl"], id=a["name"], frequency=a["freq"],
                                                start=a["start"], end=_end(a["end"])))
    events = [{"op": "setup", "acs": prog["acs"], "fcs": prog["fcs"], "obs": obs()}]
    for kind, ops in prog["ops"]:
        if kind != "between":
            other.execute()
        if kind == "between":
            apply_pop(m, ops)
            events.append({"op": "between", "ops": [list(o) for o in ops], "obs": obs()})
        else:
            pop.todo = [list(o) for o in ops]
            m.execute()
            events.append({"op": "step", "ops": [list(o) for o in ops], "obs": obs()})
    return events


def random_program(rng, steps=8):
    ids = ["x", "y", "z"]

    def window():
        s = rng.choice([0, 0, 1, 2, -1])
        e = rng.choice([FOREVER, FOREVER, s + rng.randint(0, 5), s - 1])
        return s, e, rng.choice([1, 1, 2, 3])

    acs = []
    for k in range(rng.randint(1, 3)):
        s, e, f = window()
        acs.append({"name": "c%d" % k, "start": s, "end": e, "freq": f, "fkind": rng.choice(sorted(FKINDS)),
                    "comp": rng.choice(sorted(COMPS) + ["total_shared", "total_shared"]), "incl": rng.random() < 0.4})
    fcs = []
    for k in range(rng.randint(1, 2)):
        s, e, f = window()
        fcs.append({"name": "f%d" % k, "start": s, "end": e, "freq": f, "wc": rng.choice([0, 0, 1, 2, 3]),
                    "plan": rng.choice([[1], [0], [2], [0, 1], [0, 0, 1, 1], [1, 0, 0, 0, 2], [0, 0, 0, 1, 2, 0], [2, 0]])})
    ops = []

    def popops(n):
        return [[rng.choice(["join", "join", "leave", "touch", "touch"]), rng.choice(ids)] for _ in range(n)]

    for _ in range(steps):
        if rng.random() < 0.3:
            ops.append(["between", popops(rng.randint(1, 2))])
        ops.append(["step", popops(rng.choice([0, 1, 1, 2, 3]))])
    return {"acs": acs, "fcs": fcs, "first": rng.choice(["pop", "collectors", "between"]), "replace_env": rng.random() < 0.4,
            "founder": rng.choice([None, None, 0, 1, 2, 3]), "dup_collector": rng.random() < 0.4, "ops": ops}


def sweep_programs():
    """write_count 0..3 x record plans (constant 0..2, and whole flush groups without records) x 9 timesteps, population changing."""
    out = []
    for wc in range(4):
        for k in ([0], [1], [2], [0, 0, 1], [0, 0, 0, 1, 1], [1, 0, 0, 0, 0, 2]):
            for first in ("pop", "collectors", "between"):
                ops = [["step", [["join", "x"]]], ["step", [["join", "y"], ["touch", "x"]]], ["step", []], ["step", [["leave", "x"]]],
                       ["step", [["touch", "y"]]], ["step", [["touch", "y"], ["join", "x"]]], ["step", []], ["step", [["leave", "y"]]], ["step", []]]
                out.append({"replace_env": wc % 2 == 1,
                            "acs": [{"name": "c0", "start": 0, "end": FOREVER, "freq": 1, "fkind": "odd_none", "comp": "total", "incl": True},
                                    {"name": "c2", "start": 0, "end": FOREVER, "freq": 1, "fkind": "none", "comp": "total_shared", "incl": False},
                                    {"name": "c1", "start": 1, "end": 6, "freq": 2, "fkind": "value", "comp": "nofunc", "incl": False}],
                            "fcs": [{"name": "f0", "start": 0, "end": FOREVER, "freq": 1, "wc": wc, "plan": k},
                                    {"name": "f1", "start": 2, "end": FOREVER, "freq": 2, "wc": wc, "plan": [0, 1, 1]}],
                            "first": first, "ops": ops})
    return out


def program_from_walk(walk, acs, fcs):
    ops = []
    for name, args in walk:
        if name in ("Step", "StepWith"):
            ops.append(["step", [list(o) for o in args[0]]])
        elif name in ("Outside", "Between"):
            ops.append(["between", [list(o) for o in args[0]]])
        else:
            raise AssertionError(name)
    return {"acs": acs, "fcs": fcs, "first": "pop", "ops": ops}


def tamper(trace, rng):
    ks = [k for k, e in enumerate(trace) if e["op"] == "step"]
    if not ks:
        return None
    e = trace[rng.choice(ks)]
    r = rng.random()
    if r < 0.4:
        e["obs"]["clock"] += 1
        return trace
    for f in e["obs"]["files"]:
        if f[1]:
            f[1] = f[1][:-1]
            return trace
    for c in e["obs"]["records"]:
        if c[1]:
            c[1] = c[1][:-1]
            return trace
    e["obs"]["clock"] += 1
    return trace
