"""Drives the class-level API of ECAgent agents (_MetaAgent) and records traces for spec/AgentClass_Trace.tla.

Program ops: ["attach_class", cls, T, serial] | ["detach_class", cls, T] | ["set_tag", cls, tag]
             ["new", cls, explicit(bool), tag] | ["attach_inst", i, T, serial] | ["detach_inst", i, T]     (i is 1-based)
Fresh subclasses A, B (siblings) and A1 (child of A) are created per program; Agent and Environment themselves take part
and are restored afterwards.
"""
from . import common  # noqa: F401
from ECAgent.Core import Agent, Environment, Component, Model, ComponentNotFoundError

CLASSES = ["Agent", "Environment", "A", "B", "A1", "L"]      # L: a subclass of A that is only defined later in the program


class P(Component):
    pass


class Q(Component):
    """A container-like component: falsy while empty (truthiness must not matter to the framework)."""

    def __len__(self):
        return 0


class R(P):
    """A component type derived from P (type identity decides, not subclassing)."""


TYPES = {"P": P, "Q": Q, "R": R}


def outcome(exc):
    if exc is None:
        return "ok"
    for cls, name in ((ComponentNotFoundError, "ComponentNotFoundError"), (ValueError, "ValueError"), (KeyError, "KeyError")):
        if isinstance(exc, cls):
            return name
    return "Unexpected:" + type(exc).__name__


def run_program(prog):
    saved = {c: (dict(c._components), c._tag) for c in (Agent, Environment)}
    try:
        return _run(prog)
    finally:
        for c, (comps, tag) in saved.items():
            c._components.clear()
            c._components.update(comps)
            c._tag = tag


def _run(prog):
    A = type("A", (Agent,), {})
    B = type("B", (Agent,), {})
    A1 = type("A1", (A,), {})
    cls = {"Agent": Agent, "Environment": Environment, "A": A, "B": B, "A1": A1}      # "L" is added by the op "define"
    model = Model()
    serial = {}
    insts = []
    events = []

    def comp_list(d):
        out = []
        for t, c in d.items():
            name = next((n for n, k in TYPES.items() if k is t), "?")
            out.append([name, serial.get(id(c), -1)])
        return out

    import itertools
    templates = [[]] + [list(p) for p in itertools.permutations(TYPES, 2)] + [list(TYPES), list(TYPES)[::-1]]

    def hasall(fn):
        # templates of several types (and the empty one): has_class_component(T1, T2, ...) / has_component(T1, T2, ...)
        return [[tpl, bool(fn(*[TYPES[n] for n in tpl]))] for tpl in templates]

    def obs():
        classes = []
        for n in CLASSES:
            if n not in cls:
                continue
            c = cls[n]
            get = []
            for tn, t in TYPES.items():
                r1 = c[t]
                r2 = c.get_class_component(t)
                get.append([tn, serial.get(id(r1), -1) if (r1 is not None and r1 is r2) else (0 if (r1 is None and r2 is None) else -2)])
            classes.append({"cls": n, "comps": comp_list(c.components), "len": len(c), "tag": c.tag if isinstance(c.tag, int) else -99,
                            "contains": [[tn, bool(t in c) and bool(c.has_class_component(t))] for tn, t in TYPES.items()], "get": get,
                            "hasall": hasall(c.has_class_component)})
        return {"classes": classes,
                "inst": [{"cls": n, "tag": (-98 if i in unread else (a.tag if isinstance(a.tag, int) else -99)), "comps": comp_list(a.components),
                          "len": len(a), "api": [inst_api(a, tn, t) for tn, t in TYPES.items()], "hasall": hasall(a.has_component)} for i, (n, a) in enumerate(insts)]}

    def inst_api(a, tn, t):
        has = bool(t in a) and bool(a.has_component(t))
        r1, r2 = a[t], a.get_component(t)
        ser = serial.get(id(r1), -1) if (r1 is not None and r1 is r2) else (0 if (r1 is None and r2 is None) else -2)
        try:
            a.get_component(t, throw_error=True)
            strict = "ok"
        except ComponentNotFoundError:
            strict = "ComponentNotFoundError"
        except Exception as e:  # noqa: BLE001
            strict = "Unexpected:" + type(e).__name__
        return [tn, has, ser, strict]

    keep = []
    shared = {}
    unread = {}        # instance index -> events left: the tag of such an instance is not looked at yet (logged as -98); it is
    #                    read for the first time after the next change of a class default (or after four events)
    for op in prog:
        k = op[0]
        exc = None
        ev = {"op": k}
        try:
            if k == "define":
                ev.update(cls="L")
                if "L" not in cls:
                    cls["L"] = type("L", (A,), {})
            elif k in ("attach_class", "detach_class", "set_tag", "new") and op[1] not in cls:
                continue
            elif k == "attach_class":
                _, c, T, s = op
                ev.update(cls=c, T=T, s=s)
                # a serial names ONE component object: attaching serial s of type T to a second class hands over the very
                # same object (classes may share a component object; each class still owns its own attachment)
                comp = shared.get((T, s))
                if comp is None:
                    # built the way the library's own tests build class components: "for" the class (every third one for nobody)
                    comp = shared[(T, s)] = TYPES[T](None if s % 3 == 0 else cls[c], model if s % 2 else Model())
                keep.append(comp)
                serial[id(comp)] = s
                cls[c].add_class_component(comp)
            elif k == "detach_class":
                _, c, T = op
                ev.update(cls=c, T=T)
                cls[c].remove_class_component(TYPES[T])
            elif k == "set_tag":
                _, c, t = op
                ev.update(cls=c, tag=t)
                cls[c].tag = t
            elif k == "new":
                _, c, explicit, t = op
                ev.update(cls=c, explicit=bool(explicit), tag=t)
                if c == "Environment":
                    a = Environment(model)
                    ev["explicit"] = False
                else:
                    if explicit:
                        a = cls[c]("i%d" % len(insts), model, tag=t)
                    elif len(insts) % 3 == 1:
                        a = cls[c]("i%d" % len(insts), model, tag=None)       # "no tag given", spelled out (forwarding constructors do this)
                    elif len(insts) % 3 == 2:
                        a = cls[c]("i%d" % len(insts), model, None)
                    else:
                        a = cls[c]("i%d" % len(insts), model)
                insts.append((c, a))
                if not ev["explicit"] and len(insts) % 2 == 0:
                    unread[len(insts) - 1] = 4
            elif k == "attach_inst":
                _, i, T, s = op
                ev.update(i=i, T=T, s=s)
                if not (1 <= i <= len(insts)):
                    continue
                # now and then the very object that is a class component somewhere is ALSO given to an instance (each holder keeps
                # its own attachment); otherwise a new component built for the instance
                comp = shared.get((T, s))
                if comp is None:
                    comp = TYPES[T](insts[i - 1][1], model)
                keep.append(comp)
                serial[id(comp)] = s
                insts[i - 1][1].add_component(comp)
            elif k == "detach_inst":
                _, i, T = op
                ev.update(i=i, T=T)
                if not (1 <= i <= len(insts)):
                    continue
                insts[i - 1][1].remove_component(TYPES[T])
            else:
                raise AssertionError(op)
        except Exception as e:  # noqa: BLE001
            exc = e
        if k == "set_tag":
            unread.clear()
        ev["out"] = outcome(exc)
        ev["obs"] = obs()
        for i in list(unread):
            unread[i] -= 1
            if unread[i] <= 0:
                del unread[i]
        events.append(ev)
    return events


def random_program(rng, length=14):
    prog = []
    ser = 0
    n_inst = 0
    for _ in range(length):
        r = rng.random()
        c = rng.choice(CLASSES)
        T = rng.choice(["P", "Q", "R"])
        if r < 0.04:
            prog.append(["define"])
        elif r < 0.25:
            earlier = [op for op in prog if op[0] == "attach_class"]
            if earlier and rng.random() < 0.3:
                e = rng.choice(earlier)
                prog.append(["attach_class", c, e[2], e[3]])      # the same component object, attached to (another) class
            else:
                ser += 1
                prog.append(["attach_class", c, T, ser])
        elif r < 0.38:
            prog.append(["detach_class", c, T])
        elif r < 0.58:
            prog.append(["set_tag", c, rng.choice([0, 1, 2, 5, 7])])
        elif r < 0.85:
            prog.append(["new", c, rng.random() < 0.4, rng.choice([0, 1, 3, 9])])
            n_inst += 1
        elif n_inst:
            ser += 1
            earlier = [op for op in prog if op[0] == "attach_class"]
            if earlier and rng.random() < 0.25:
                e = rng.choice(earlier)
                prog.append(["attach_inst", rng.randint(1, n_inst), e[2], e[3]])     # the object that is a class component somewhere
            elif rng.random() < 0.7:
                prog.append(["attach_inst", rng.randint(1, n_inst), T, ser])
            else:
                prog.append(["detach_inst", rng.randint(1, n_inst), T])
    return prog


def program_from_walk(walk):
    prog = []
    for name, args in walk:
        if name == "AttachClass":
            prog.append(["attach_class", args[0], args[1], args[2]])
        elif name == "AttachClassRejected":
            prog.append(["attach_class", args[0], args[1], 9])
        elif name in ("DetachClass", "DetachClassRejected"):
            prog.append(["detach_class", args[0], args[1]])
        elif name == "SetTag":
            prog.append(["set_tag", args[0], args[1]])
        elif name in ("OfferNew", "New"):
            prog.append(["new", args[0], bool(args[1]), args[2]])
        elif name == "AttachInst":
            prog.append(["attach_inst", args[0], args[1], args[2]])
        elif name == "DetachInst":
            prog.append(["detach_inst", args[0], args[1]])
        else:
            raise AssertionError(name)
    return prog


def tamper(trace, rng):
    ks = [k for k, e in enumerate(trace) if e["op"] in ("set_tag", "new", "attach_class")]
    if not ks:
        return None
    e = trace[rng.choice(ks)]
    c = rng.choice(e["obs"]["classes"])
    c["tag"] += 1
    return trace
