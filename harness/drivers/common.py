"""Shared by all drivers: import ECAgent from /repo's *current working tree*, never write bytecode there."""
import os
import sys

sys.dont_write_bytecode = True
REPO = os.environ.get("VERIF_REPO", "/repo")
if REPO not in sys.path:
    sys.path.insert(0, REPO)
import warnings  # noqa: E402

warnings.filterwarnings("ignore", category=DeprecationWarning)
