"""Shared by all drivers: import ECAgent from /repo's *current working tree*, never write bytecode there."""
import os
import sys

sys.dont_write_bytecode = True
REPO = os.environ.get("VERIF_REPO", "/repo")
if REPO not in sys.path:
    sys.path.insert(0, REPO)
import warnings  # noqa: E402

warnings.filterwarnings("ignore", category=DeprecationWarning)


class Runaway(BaseException):
    """A driver program exceeded its budget of wall-clock time or memory growth (see `budget`)."""


def _rss():
    try:
        with open("/proc/self/statm") as f:
            return int(f.read().split()[1]) * 4096
    except Exception:  # noqa: BLE001
        return 0


import contextlib  # noqa: E402


@contextlib.contextmanager
def budget(seconds=None, grow_gb=3.0):
    """Bound one in-process driver program: driver programs take milliseconds; an implementation that loops for ever or
    accumulates without bound (a system re-run endlessly, ...) must end the program, not the machine.  A one-second
    interval timer raises Runaway in the main thread when the program has run for `seconds` (default 60, env
    VERIF_PROGRAM_BUDGET_S) or the process has grown by `grow_gb`.  No-op outside the main thread."""
    import signal
    import threading
    import time
    if threading.current_thread() is not threading.main_thread():
        yield
        return
    limit = seconds if seconds is not None else float(os.environ.get("VERIF_PROGRAM_BUDGET_S", "60"))
    t0, r0 = time.time(), _rss()

    def handler(signum, frame):
        if time.time() - t0 > limit:
            raise Runaway("the program did not end within %.0f s" % limit)
        if _rss() - r0 > grow_gb * 2 ** 30:
            raise Runaway("the process grew by more than %.1f GB while the program ran" % grow_gb)

    old = signal.signal(signal.SIGALRM, handler)
    signal.setitimer(signal.ITIMER_REAL, 1.0, 1.0)
    try:
        yield
    finally:
        signal.setitimer(signal.ITIMER_REAL, 0)
        signal.signal(signal.SIGALRM, old)


def run_isolated(module, func, args_list, timeout=90, workers=8, retries=2):
    """Run harness.drivers.<module>.<func>(arg) for every arg in its own fresh, single-threaded interpreter.

    Used for everything that forks worker pools (multiprocessing from a clean process, never from the harness process) and
    guarded by a timeout: returns a list with the result, or None where the call did not finish within `timeout` seconds
    in any of `retries` + 1 attempts (the last one with twice the time); the caller decides what an unfinished program means."""
    import concurrent.futures as cf
    import json
    import subprocess
    root = os.path.dirname(os.path.dirname(os.path.dirname(os.path.abspath(__file__))))
    code = ("import sys, json, resource; resource.setrlimit(resource.RLIMIT_AS, (24 * 2 ** 30, 24 * 2 ** 30)); "
            "sys.path.insert(0, %r); from harness.drivers import %s as M; "
            "print('\\n@@RESULT@@' + json.dumps(M.%s(json.load(sys.stdin))))" % (root, module, func))
    env = dict(os.environ)
    env["VERIF_REPO"] = REPO
    env.setdefault("PYTHONHASHSEED", "0")

    def one(arg):
        for attempt in range(retries + 1):
            tmo = timeout * (2 if attempt == retries and retries else 1)
            try:
                p = subprocess.Popen([sys.executable, "-c", code], stdin=subprocess.PIPE, stdout=subprocess.PIPE,
                                     stderr=subprocess.PIPE, text=True, env=env, start_new_session=True)
                try:
                    out, err = p.communicate(json.dumps(arg), timeout=tmo)
                except subprocess.TimeoutExpired:
                    try:
                        os.killpg(p.pid, 9)      # the whole process group: pool workers too
                    except Exception:  # noqa: BLE001
                        pass
                    p.kill()
                    p.communicate()
                    continue
                if p.returncode != 0 or "@@RESULT@@" not in out:
                    if "ModuleNotFoundError" in err or "No module named" in err or "MemoryError" in err:
                        raise RuntimeError("isolated driver failed: " + err[-1500:])       # the machinery, not the implementation
                    return {"crash": err[-1500:]}
                return json.loads(out.split("@@RESULT@@", 1)[1])
            except subprocess.TimeoutExpired:
                continue
        return None

    with cf.ThreadPoolExecutor(max_workers=workers) as ex:
        return list(ex.map(one, args_list))
