"""Shared by all drivers: import ECAgent from /repo's *current working tree*, never write bytecode there."""
import os
import sys

sys.dont_write_bytecode = True
REPO = os.environ.get("VERIF_REPO", "/repo")
if REPO not in sys.path:
    sys.path.insert(0, REPO)
import warnings  # noqa: E402

warnings.filterwarnings("ignore", category=DeprecationWarning)


def run_isolated(module, func, args_list, timeout=90, workers=8, retries=1):
    """Run harness.drivers.<module>.<func>(arg) for every arg in its own fresh, single-threaded interpreter.

    Used for everything that forks worker pools (multiprocessing from a clean process, never from the harness process) and
    guarded by a timeout: returns a list with the result, or None where the call did not finish within `timeout` seconds
    even when retried (the caller counts those as inconclusive; they never raise an alarm)."""
    import concurrent.futures as cf
    import json
    import subprocess
    root = os.path.dirname(os.path.dirname(os.path.dirname(os.path.abspath(__file__))))
    code = ("import sys, json; sys.path.insert(0, %r); from harness.drivers import %s as M; "
            "print('\\n@@RESULT@@' + json.dumps(M.%s(json.load(sys.stdin))))" % (root, module, func))
    env = dict(os.environ)
    env["VERIF_REPO"] = REPO
    env.setdefault("PYTHONHASHSEED", "0")

    def one(arg):
        for _ in range(retries + 1):
            try:
                p = subprocess.Popen([sys.executable, "-c", code], stdin=subprocess.PIPE, stdout=subprocess.PIPE,
                                     stderr=subprocess.PIPE, text=True, env=env, start_new_session=True)
                try:
                    out, err = p.communicate(json.dumps(arg), timeout=timeout)
                except subprocess.TimeoutExpired:
                    try:
                        os.killpg(p.pid, 9)      # the whole process group: pool workers too
                    except Exception:  # noqa: BLE001
                        pass
                    p.kill()
                    p.communicate()
                    continue
                if p.returncode != 0 or "@@RESULT@@" not in out:
                    raise RuntimeError("isolated driver failed: " + err[-1500:])
                return json.loads(out.split("@@RESULT@@", 1)[1])
            except subprocess.TimeoutExpired:
                continue
        return None

    with cf.ThreadPoolExecutor(max_workers=workers) as ex:
        return list(ex.map(one, args_list))
