"""Fixture classes and hooks named in the JSON descriptions that the decode driver writes.
They record the lifecycle (what was called, with which arguments, and what the decoded model contained at that moment)."""
from . import common  # noqa: F401
from ECAgent.Core import Model, System, Agent
from ECAgent.Decode import IDecodable

LOG = []
CURRENT = [None]


def _state():
    m = CURRENT[0]
    if m is None:
        return 0, 0
    return len(m.systems.systems), len(m.environment)


def _emit(e, i=0, k=0, hasmodel=False):
    ns, na = _state()
    LOG.append({"e": e, "i": int(i), "k": int(k), "hasmodel": bool(hasmodel), "nsys": ns, "nag": na})


class FxModel(Model, IDecodable):
    @staticmethod
    def decode(params):
        _emit("model")
        m = FxModel(seed=params.get("seed"))
        if params.get("closed"):
            m.complete()          # a model may be handed over already complete (it is then falsy: bool(model) is is_running())
        CURRENT[0] = m
        return m


RAN = []


class FxSystem(System, IDecodable):
    def execute(self):
        RAN.append(self.id)

    @staticmethod
    def decode(params):
        _emit("system", params["i"], 0, params.get("model") is CURRENT[0] and CURRENT[0] is not None)
        return FxSystem(params["id"], params["model"], **{k: params[k] for k in ("priority", "frequency", "start", "end") if k in params})


class FxAgent(Agent, IDecodable):
    @staticmethod
    def decode(params):
        _emit("agent", params["j"], params["agent_index"], params.get("model") is CURRENT[0] and CURRENT[0] is not None)
        a = FxAgent("g%d_%d" % (params["j"], params["agent_index"]), params["model"])
        a.where = (params["j"], params["agent_index"])
        return a

    __slots__ = ["where"]


class FxSystemMain(FxSystem):
    """Installed in `__main__` under the SAME class name `FxSystem`: which class a description gets depends on its module."""
    origin = "main"

    @staticmethod
    def decode(params):
        _emit("system", params["i"], 0, params.get("model") is CURRENT[0] and CURRENT[0] is not None)
        return FxSystemMain(params["id"], params["model"], **{k: params[k] for k in ("priority", "frequency", "start", "end") if k in params})


class FxAgentMain(FxAgent):
    origin = "main"

    @staticmethod
    def decode(params):
        _emit("agent", params["j"], params["agent_index"], params.get("model") is CURRENT[0] and CURRENT[0] is not None)
        a = FxAgentMain("g%d_%d" % (params["j"], params["agent_index"]), params["model"])
        a.where = (params["j"], params["agent_index"])
        return a

    __slots__ = []


FxSystem.origin = "mod"
FxAgent.origin = "mod"


GEN = [0]           # the number of the decode in progress
STALE = [0]         # hook calls that reached a function object bound for an earlier decode


def bind_hooks(main_module):
    """Every decode finds NEW function objects under the hook names (plug-in modules are reloaded, scenario folders switched):
    the function that is bound when a description is decoded is the one that must be called."""
    GEN[0] += 1
    gen = GEN[0]

    def fresh(params, gen=gen):
        if gen != GEN[0]:
            STALE[0] += 1
        return _hook(params)
    globals()["hook"] = fresh
    main_module.main_hook = fresh


def _hook(params):
    if params.get("swap_env") and CURRENT[0] is not None:
        from ECAgent.Core import Environment
        CURRENT[0].set_environment(Environment(CURRENT[0]))      # a hook may give the (still empty) model a new environment
    needs = params["kind"] not in ("pre_model", "post_model")
    _emit(params["kind"], params.get("i", 0), 0, needs and params.get("model") is CURRENT[0] and CURRENT[0] is not None)


hook = _hook
