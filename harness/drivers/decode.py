"""Writes model descriptions as JSON files, decodes them with the real JsonDecoder and records traces for
spec/Decode_Trace.tla.  Program: list of descriptions decoded one after the other in this process
  desc = {"pre": bool, "post": bool, "systems": [{"pre","post","id","prio","freq","start","end"}], "groups": [{"pre","post","n"}]}
"""
import json
import os
import shutil
import sys
import tempfile

from . import common  # noqa: F401
from . import decode_fixtures as FX
from ECAgent.Decode import JsonDecoder

MOD = FX.__name__


_NPROG = [0]


class _ParseOnce(JsonDecoder):
    def __init__(self):
        super().__init__()
        self.parsed = {}

    def open_file(self, file_path):
        with open(file_path) as f:
            text = f.read()
        if text not in self.parsed:
            self.parsed[text] = super().open_file(file_path)
        return self.parsed[text]


def _install_main_aliases():
    """The documented default for an omitted "module" is `__main__`: the fixtures are also reachable there, under other names
    (hooks) or under the same names but as other classes (so that a lookup in the wrong module shows)."""
    import __main__
    __main__.main_hook = FX.hook
    __main__.FxSystem = FX.FxSystemMain          # the same class NAMES as in the fixtures module, other classes
    __main__.FxAgent = FX.FxAgentMain


def to_file_doc(d):
    nomod = d.get("nomod", 0)          # 1: hooks omit their module, 2: system / agent classes omit it, 3: both

    def hk(kind, i=None):
        p = {"kind": kind}
        if i is not None:
            p["i"] = i
        if nomod in (1, 3):
            return {"func": "main_hook", "params": p}
        return {"func": "hook", "module": MOD, "params": p}

    def named(name, alias):
        return {"name": alias} if nomod in (2, 3) else {"name": name, "module": MOD}

    mparams = {"seed": 5, "closed": bool(d.get("closed"))}
    if not mparams["closed"] and nomod % 2 == 0:
        del mparams["closed"]          # a parameter at its default is not declared (every other description)
    doc = {"model": {"name": "FxModel", "module": MOD, "params": mparams}, "systems": [], "agents": []}
    if d["pre"]:
        doc["pre_model_decode"] = hk("pre_model")
    if d["post"]:
        doc["post_model_decode"] = hk("post_model")
    for i, s in enumerate(d["systems"], start=1):
        sd = {**named("FxSystem", "FxSystem"),
              "params": {"i": i, "id": s["id"], "priority": s["prio"], "frequency": s["freq"], "start": s["start"],
                         "end": sys.maxsize if s["end"] >= 999999 else s["end"]}}
        if d.get("nomod", 0) % 2 == 0 or i % 2 == 0:
            # keys whose declared value is the documented default are left out of every other system entry
            for key, dflt in (("priority", 0), ("frequency", 1), ("start", 0), ("end", sys.maxsize)):
                if sd["params"][key] == dflt:
                    del sd["params"][key]
        if s["pre"]:
            sd["pre_system_init"] = hk("pre_system", i)
        if s["post"]:
            sd["post_system_init"] = hk("post_system", i)
        doc["systems"].append(sd)
    for j, g in enumerate(d["groups"], start=1):
        gd = {**named("FxAgent", "FxAgent"), "number": g["n"], "params": {"j": j}}
        if g["pre"]:
            gd["pre_agent_init"] = hk("pre_agents", j)
            if j == 1 and d.get("swap"):
                gd["pre_agent_init"]["params"]["swap_env"] = True
        if g["post"]:
            gd["post_agent_init"] = hk("post_agents", j)
        doc["agents"].append(gd)
    return doc


def run_program(prog):
    tmp = tempfile.mkdtemp(prefix="verif-dec-")
    events = []
    _install_main_aliases()
    _NPROG[0] += 1
    # every other program decodes through a user-written decoder (the documented extension point open_file) that parses a
    # description once and hands the same parsed object to every later decode of the same text
    decoder = _ParseOnce() if _NPROG[0] % 2 else JsonDecoder()
    try:
        for n, d in enumerate(prog):
            d.setdefault("nomod", 0)
            path = os.path.join(tmp, "m%d.json" % (n % 2))       # alternate between two files
            with open(path, "w") as f:
                json.dump(to_file_doc(d), f)
            FX.LOG.clear()
            FX.CURRENT[0] = None
            import __main__ as _mainmod
            FX.bind_hooks(_mainmod)
            FX.STALE[0] = 0
            exc = None
            final = {"systems": [], "agents": [], "ran": []}
            try:
                m = decoder.decode(path)
                for s in d["systems"]:
                    pass
                seen = []
                for sid, s in m.systems.systems.items():
                    seen.append([str(s.id), int(s.priority), int(s.frequency), int(s.start), 999999 if s.end >= 999999 else int(s.end),
                                 str(getattr(s, "origin", "?"))])
                final["systems"] = seen
                final["agents"] = [list(getattr(a, "where", (-1, -1))) + [str(getattr(a, "origin", "?"))] for a in m.environment]
                if not d.get("closed"):
                    del FX.RAN[:]
                    m.execute()                   # timestep 0 of the decoded model
                    final["ran"] = list(FX.RAN)
                if m is not FX.CURRENT[0]:
                    final["agents"].append([-7, -7, "?"])
            except Exception as e:  # noqa: BLE001
                exc = e
            events.append({"op": "decode", "desc": d, "out": "ok" if exc is None else "Unexpected:" + type(exc).__name__,
                           "log": [dict(x) for x in FX.LOG], "final": final, "stale": FX.STALE[0]})
    finally:
        shutil.rmtree(tmp, ignore_errors=True)
    return events


def all_descs(max_sys, max_groups, max_n):
    import itertools
    bools = (False, True)
    sys_opts = [{"pre": a, "post": b} for a in bools for b in bools]
    grp_opts = [{"pre": a, "post": b, "n": n} for a in bools for b in bools for n in range(max_n + 1)]
    out = []
    for pre in bools:
        for post in bools:
            for ns in range(max_sys + 1):
                for ss in itertools.product(sys_opts, repeat=ns):
                    for ng in range(max_groups + 1):
                        for gs in itertools.product(grp_opts, repeat=ng):
                            systems = [dict(s, id="s%d" % (k * 7 % 5), prio=(3 * k + ns) % 4 - 1, freq=1 + k % 2, start=k, end=999999 if k % 2 else (0 if k % 4 == 0 else 5 + k))
                                       for k, s in enumerate(ss)]
                            out.append({"pre": pre, "post": post, "closed": len(out) % 3 == 1, "swap": len(out) % 4 == 2, "nomod": (len(out) // 5) % 4,
                                        "systems": systems,
                                        "groups": [dict(g) for g in gs]})
    return out


def random_desc(rng, max_sys=4, max_groups=4, max_n=4):
    ids = rng.sample(["a", "b", "zz", "sys", "S1", "q"], rng.randint(0, max_sys))
    systems = [{"pre": rng.random() < 0.5, "post": rng.random() < 0.5, "id": i, "prio": rng.choice([-5, -1, 0, 0, 1, 9]),
                "freq": rng.randint(1, 3), "start": rng.choice([0, 0, 2, -1]), "end": rng.choice([999999, 3, 10, 0, 0, -1])} for i in ids]
    groups = [{"pre": rng.random() < 0.5, "post": rng.random() < 0.5, "n": rng.randint(0, max_n)} for _ in range(rng.randint(0, max_groups))]
    return {"pre": rng.random() < 0.5, "post": rng.random() < 0.5, "closed": rng.random() < 0.3, "swap": rng.random() < 0.3,
            "nomod": rng.choice([0, 0, 1, 2, 3]), "systems": systems, "groups": groups}


def tamper(trace, rng):
    e = trace[rng.randrange(len(trace))]
    if len(e["log"]) >= 2:
        i = rng.randrange(len(e["log"]) - 1)
        if e["log"][i] != e["log"][i + 1]:
            e["log"][i], e["log"][i + 1] = e["log"][i + 1], e["log"][i]
            return trace
    e["log"] = e["log"] + [dict(e["log"][-1])]
    return trace
