"""Runs scripted stochastic ECAgent models under perturbation schedules and records traces for spec/Determinism_Trace.tla.

Program: {"config": {"kind": plain|grid|space, "n": int, "mix": [..]}, "seed": int,
          "schedule": [["A", copy] | ["P", v] | ["B"] ...],      copies 1 and 2 of the same (config, seed), stepped interleaved
          "where": "inline" | "fresh" | "worker", "hashseed": "0" | "1" | "12345" | "random"}
Each copy's trajectory becomes one `run` event with key = (config, seed).  No expectation is computed here.
"""
import json
import os
import random
import subprocess
import sys

import numpy as np

from . import common
from ECAgent.Core import Model, Agent, Component, System
from ECAgent.Collectors import Collector, AgentCollector
import numpy as np
from ECAgent.Environments import GridWorld, LineWorld, SpaceWorld, PositionComponent, discrete_grid_pos_to_id


RASTER = np.arange(20, dtype=np.float64) * 1.5 + 10.0        # kept by the program, handed to every model


class CompA(Component):
    pass


def _pos(a):
    p = a[PositionComponent]
    return [int(round(v * 4)) for v in p.xyz()] if p is not None else [0, 0, 0]


class Script(System):
    def __init__(self, model, mix):
        super().__init__("script", model, priority=0)
        self.mix = mix
        self.out = {}
        self.counter = 0

    def execute(self):
        m = self.model
        env = m.environment
        o = {"picks": [], "order": [], "moves": [], "churn": [], "near": []}
        if "pick" in self.mix:
            for args, kw in (((), {}), ((CompA,), {}), ((), {"tag": 1}), ((CompA,), {"tag": 0})):
                a = env.get_random_agent(*args, **kw)
                o["picks"].append("None" if a is None else a.id)
        if "shuffle" in self.mix:
            o["order"] = [a.id for a in env.shuffle()]
            o["order"] += ["|"] + [a.id for a in env.shuffle(tag=1)]
        if "move" in self.mix and m.kind in ("grid", "tgrid"):
            # pick a random neighbouring cell: the list the world hands out is shuffled in place with the model's generator
            a = env.get_random_agent()
            if a is not None:
                p = a[PositionComponent]
                if m.systems.timestep % 2:
                    cells = env.get_moore_neighbours((int(p.x), int(p.y), 0), 1, False, tuple)
                else:
                    # the generic entry point, its mode given as text that was put together at run time (a model parameter)
                    mode = "".join(list(("neumann", "moore")[(m.systems.timestep // 2) % 2]))
                    cells = env.get_neighbours((int(p.x), int(p.y), 0), 1, False, tuple, mode)
                m.random.shuffle(cells)
                if cells:
                    env.move_to(a, cells[0][0], cells[0][1])
                o["moves"].append([a.id] + _pos(a))
        if "move" in self.mix and m.kind == "line":
            a = env.get_random_agent()
            if a is not None:
                cells = env.get_neumann_neighbours(int(a[PositionComponent].x), 1 + m.systems.timestep % 2, False, tuple)
                m.random.shuffle(cells)
                if cells:
                    env.move_to(a, cells[0][0])
                o["moves"].append([a.id] + _pos(a))
        if "move" in self.mix and m.kind not in ("plain", "line"):
            for a in env.shuffle()[:2]:
                dx, dy = m.random.randint(-2, 2), m.random.randint(-2, 2)
                env.move(a, dx, dy)
                o["moves"].append([a.id] + _pos(a))
        if "near" in self.mix and m.kind != "plain":
            # who is around me (two cells / units each way - across the border of the small world, too)?  One of them is drawn.
            for a in env.shuffle()[:3]:
                p = a[PositionComponent]
                found = env.get_agents_at(p.x, p.y, leeway=2)
                b = m.random.choice(found) if found else None
                o["near"].append([a.id, "None" if b is None else b.id] + [x.id for x in found])
        if "cells" in self.mix and m.kind in ("grid", "tgrid"):
            # grazing: two random agents eat from the cell they stand on (the resource layer was built from a raster the program
            # keeps and hands to every model it builds)
            for a in env.shuffle()[:2]:
                p = a[PositionComponent]
                cid = int(discrete_grid_pos_to_id(int(p.x), int(p.y), env.width))
                val = float(env.cells.loc[cid, "res"])
                env.cells.loc[cid, "res"] = val - 1.0
                o["near"].append([a.id, "ate", cid, int(round(val * 2))])
        if KNOB[0]:
            o["near"].append(["knob", KNOB[0]])
        if hasattr(m, "acc"):
            o["near"].append(["acc", m.acc])
        if getattr(m, "bag", None) is not None:
            m.bag.append(m.random.randint(0, 9))
            o["near"].append(["bag", len(m.bag), sum(m.bag)])
        if "churn" in self.mix:
            if m.random.random() < 0.4 and len(env) > 1:
                a = env.get_random_agent()
                env.remove_agent(a.id)
                o["churn"].append("-" + a.id)
            if m.random.random() < 0.4:
                self.counter += 1
                m.add_one("n%d" % self.counter)
                o["churn"].append("+n%d" % self.counter)
        self.out = o


class Setup(System):
    """A one-shot system: does its work in its first timestep and unregisters itself (the usual `clean_up()` idiom)."""

    def __init__(self, model):
        super().__init__("setup", model, priority=0)

    def execute(self):
        # sets the model up: registers the phase systems (in this order), then lets itself go
        for sid in ("late1", "late2", "late3", "late4"):
            self.model.systems.add_system(Extra(self.model, sid))
        self.clean_up()


class Extra(System):
    """One of several systems sharing the script's priority; each draws once per timestep and adds to the script's observation
    (so the order among equal priorities - registration order - shows in the trajectory)."""

    def __init__(self, model, sid):
        super().__init__(sid, model, priority=0)

    def execute(self):
        m = self.model
        v = m.random.randint(0, 10 ** 6)
        m.systems["script"].out.setdefault("extra", []).append([self.id, v])
        # an accumulator that depends on the ORDER in which the equal-priority systems ran (it stays in the model)
        m.acc = (getattr(m, "acc", 7) * 31 + sum(map(ord, self.id)) * 1009 + v) % 1000003


class Hook(System):
    """Runs first in every timestep; the driver may hand it something to do (e.g. step ANOTHER model from inside this one)."""

    def __init__(self, model):
        super().__init__("hook", model, priority=9)
        self.todo = None

    def execute(self):
        if self.todo is not None:
            todo, self.todo = self.todo, None
            todo()


class Traj(Collector):
    """Records the full observation of every timestep (also what a batch worker returns)."""

    def collect(self):
        m = self.model
        o = dict(m.systems["script"].out)
        o["t"] = m.systems.timestep
        o["env"] = [[a.id, a.tag] + (_pos(a) if m.kind != "plain" else []) for a in m.environment]
        rec = m.systems["ac"].records
        o["nrec"] = len(rec)
        o["lastrec"] = sorted([str(k), int(v)] for k, v in rec[-1].items()) if rec else []
        self.records.append(json.loads(json.dumps(o)))


class StochModel(Model):
    def __init__(self, seed=1, kind="plain", n=5, mix="pick,shuffle,move,churn"):
        if n % 2:
            super().__init__(seed=seed)
        else:
            super().__init__(seed)          # the seed by position, as the repository's own example models pass it
        self.kind = kind
        if kind in ("grid", "tgrid"):
            self.set_environment(GridWorld(self, 5, 4, wrap_env=(kind == "tgrid")))
            if "cells" in mix.split(","):
                self.environment.add_cell_component("res", RASTER)
        elif kind == "line":
            self.set_environment(LineWorld(self, 6))
        elif kind in ("space", "tspace"):
            self.set_environment(SpaceWorld(self, 6.0, 4.0, wrap_env=(kind == "tspace")))
        for i in range(n):
            self.add_one("a%d" % i, tag=i % 2, comp=(i % 3 != 0))
        self.systems.add_system(Hook(self))
        if "setup" in mix.split(","):
            self.systems.add_system(Setup(self))
        self.systems.add_system(Script(self, mix.split(",")))
        if "setup" in mix.split(","):
            for sid in ("extra", "aux", "zeta", "b2"):
                self.systems.add_system(Extra(self, sid))
        self.systems.add_system(AgentCollector(self, lambda a: (len(a.id) * 10 + a.tag) if a.tag else None, id="ac", priority=-1))
        self.systems.add_system(Traj("traj", self, priority=-2))

    def add_one(self, aid, tag=None, comp=None):
        r = self.random
        a = Agent(aid, self, tag=r.randint(0, 1) if tag is None else tag)
        if comp if comp is not None else r.random() < 0.5:
            a.add_component(CompA(a, self))
        if self.kind == "plain":
            self.environment.add_agent(a)
        elif self.kind == "line":
            self.environment.add_agent(a, r.randint(0, 5))
        elif self.kind in ("grid", "tgrid"):
            self.environment.add_agent(a, r.randint(0, 4), r.randint(0, 3))
        else:
            self.environment.add_agent(a, r.randint(0, 24) / 4.0, r.randint(0, 16) / 4.0)


class StochDecoded(StochModel):
    """The same model, built from a JSON description; it keeps a list from its description and adds to it while it runs."""

    @staticmethod
    def decode(params):
        m = StochDecoded(seed=params["seed"], kind=params["kind"], n=params["n"], mix=params["mix"])
        m.bag = params["bag"]
        return m


class StochKw(StochModel):
    """The same model written the way many user models are: it forwards what it does not know to its base class."""

    def __init__(self, **kwargs):
        super().__init__(**kwargs)


def perturb(v, salt):
    if v == 0:
        random.seed(salt * 7 + 1)
        for _ in range(salt % 5 + 1):
            random.random()
    elif v == 1:
        np.random.seed(salt + 3)
        np.random.rand(salt % 4 + 1)
        np.random.shuffle(np.arange(5))
    else:
        lst = list(range(7))
        random.shuffle(lst)
        random.getrandbits(64)
        np.random.randint(0, 10, size=3)


def _other_kind(kind):
    """The other model that is stepped in between lives in another kind of world."""
    return "line" if kind in ("grid", "tgrid") else "grid"


KNOB = [0]          # a module-level setting of the program (model code reads it); programs change it between two batches


def _key(prog):
    c = prog["config"]
    return "%s%s/%d/%s/seed=%r" % ("decoded:" if c.get("decoded") else "", c["kind"], c["n"], c["mix"], prog["seed"])


_DESC_DIR = []


def make_model(c, seed):
    """The model of configuration c: built directly, or (c["decoded"]) decoded from a JSON description of it - every copy from
    the same file, as re-runs and repetitions do."""
    if not c.get("decoded"):
        return StochModel(seed, c["kind"], c["n"], c["mix"])
    import tempfile
    from ECAgent.Decode import JsonDecoder
    if not _DESC_DIR:
        _DESC_DIR.append(tempfile.mkdtemp(prefix="verif-det-"))
        import atexit
        import shutil
        atexit.register(shutil.rmtree, _DESC_DIR[0], True)
    import hashlib
    doc = {"model": {"name": "StochDecoded", "module": __name__,
                     "params": {"seed": seed, "kind": c["kind"], "n": c["n"], "mix": c["mix"], "bag": [1, 2, 3]}},
           "systems": [], "agents": []}
    text = json.dumps(doc, sort_keys=True)
    path = os.path.join(_DESC_DIR[0], hashlib.sha1(text.encode()).hexdigest()[:16] + ".json")
    if not os.path.exists(path):
        with open(path, "w") as f:
            f.write(text)
    return JsonDecoder().decode(path)


def run_inline(prog):
    c = prog["config"]
    copies = {}
    other = None
    salt = 0
    for step in prog["schedule"]:
        salt += 1
        if step[0] == "A":
            k = step[1]
            if k not in copies:
                copies[k] = make_model(c, prog["seed"])
            copies[k].execute()
        elif step[0] == "P":
            perturb(step[1], salt)
        elif step[0] == "N":
            # the other model is stepped from INSIDE the next timestep of copy k (by its hook system)
            k = step[1]
            if k not in copies:
                copies[k] = make_model(c, prog["seed"])
            if other is None:
                other = StochModel(100003 + salt, _other_kind(c["kind"]), c["n"] + 1, c["mix"])
            copies[k].systems["hook"].todo = other.execute
            copies[k].execute()
        elif step[0] == "B":
            if other is None:
                other = StochModel(100003 + salt, _other_kind(c["kind"]), c["n"] + 1, c["mix"])
            other.execute()
    events = []
    for k in sorted(copies):
        m = copies[k]
        steps = list(m.systems["traj"].records)
        events.append({"op": "run", "key": _key(prog), "copy": k, "where": prog.get("where", "inline"),
                       "out": "ok", "steps": steps})
        if prog.get("finale", True):
            # after the run: mark the model complete (configurations with churn) and let the framework draw once more on its
            # behalf - a "winner" pick and a final shuffle - with the ambient state perturbed in between the copies.
            # Its own event: comparable only between runs of the same length.
            perturb(k % 3, salt + k)
            if "churn" in c["mix"]:
                m.complete()
            a = m.environment.get_random_agent()
            post = {"t": -1, "post_pick": "None" if a is None else a.id,
                    "post_order": [x.id for x in m.environment.shuffle()], "running": bool(m.is_running())}
            events.append({"op": "run", "key": _key(prog) + "/after %d steps" % len(steps), "copy": k,
                           "where": prog.get("where", "inline"), "out": "ok", "steps": [post]})
    return events


def run_worker(prog):
    """Both copies run inside batch_run worker processes."""
    from ECAgent.Batching import batch_run
    c = prog["config"]
    steps = sum(1 for s in prog["schedule"] if s[0] == "A" and s[1] == 1)
    perturb(len(str(prog["seed"])) % 3, steps)
    res = batch_run(StochKw if steps % 2 else StochModel, {"seed": prog["seed"], "kind": c["kind"], "n": c["n"], "mix": c["mix"]}, collectors="traj",
                    processes=2, max_timesteps=max(steps, 1), repetitions=2)
    out = [{"op": "run", "key": _key(prog), "copy": k + 1, "where": "worker", "out": "ok", "steps": r} for k, r in enumerate(res)]
    # a second study in the same session after the program changed one of its settings: first in this process (that run
    # defines what the setting does), then in worker processes again
    KNOB[0] = 5
    try:
        ref = StochModel(prog["seed"], c["kind"], c["n"], c["mix"])
        for _ in range(max(steps, 1)):
            ref.execute()
        out.append({"op": "run", "key": _key(prog) + "/knob", "copy": 0, "where": "inline", "out": "ok", "steps": list(ref.systems["traj"].records)})
        res = batch_run(StochModel, {"seed": prog["seed"], "kind": c["kind"], "n": c["n"], "mix": c["mix"]}, collectors="traj",
                        processes=2, max_timesteps=max(steps, 1), repetitions=1)
        out += [{"op": "run", "key": _key(prog) + "/knob", "copy": k + 1, "where": "worker", "out": "ok", "steps": r} for k, r in enumerate(res)]
    finally:
        KNOB[0] = 0
    return out


def _digest(steps):
    import hashlib
    return int(hashlib.sha1(json.dumps(steps, sort_keys=True).encode()).hexdigest()[:7], 16)


def _score(model):
    return _digest(model.systems["traj"].records)


def run_search(prog):
    """The same (configuration, seed) run as the repetitions of a grid_search; the score is a digest of the trajectory."""
    from ECAgent.Batching import grid_search
    c = prog["config"]
    steps = max(1, sum(1 for s in prog["schedule"] if s[0] == "A" and s[1] == 1))
    perturb(1, steps)
    best, results = grid_search(StochModel, {"seed": prog["seed"], "kind": c["kind"], "n": c["n"], "mix": c["mix"]}, _score,
                                processes=prog.get("procs", 1), max_timesteps=steps, repetitions=3)
    return [{"op": "run", "key": _key(prog) + "/digest of %d steps" % steps, "copy": k + 1, "where": "grid_search", "out": "ok",
             "steps": [{"t": -2, "digest": int(r)}]} for k, r in enumerate(results[0]["records"])]


def run_fresh(prog):
    env = dict(os.environ)
    env["VERIF_REPO"] = common.REPO
    env["PYTHONHASHSEED"] = prog.get("hashseed", "0")
    root = os.path.dirname(os.path.dirname(os.path.dirname(os.path.abspath(__file__))))
    code = ("import sys, json; sys.path.insert(0, %r); from harness.drivers import determinism as D; "
            "print(json.dumps(D.run_inline(json.load(sys.stdin))))" % root)
    r = subprocess.run([sys.executable, "-c", code], input=json.dumps(prog), capture_output=True, text=True, env=env, timeout=300)
    if r.returncode != 0:
        raise RuntimeError("determinism child failed: " + r.stderr[-800:])
    evs = json.loads(r.stdout)
    for e in evs:
        e["where"] = "fresh/hashseed=" + prog.get("hashseed", "0")
    return evs


def run_program(prog):
    """One trace: the reference run (inline, no perturbation) followed by the runs of the program.  A run that raises is
    an event with that outcome (no specification step explains it)."""
    try:
        return _run_program(prog)
    except Exception as e:  # noqa: BLE001
        return [{"op": "run", "key": _key(prog), "copy": 0, "where": prog.get("where", "inline"),
                 "out": "Unexpected:" + type(e).__name__, "steps": []}]


def _run_program(prog):
    c = prog["config"]
    n_steps = max(1, sum(1 for s in prog["schedule"] if s[0] in ("A", "N") and s[1] == 1),
                  sum(1 for s in prog["schedule"] if s[0] in ("A", "N") and s[1] == 2))
    ref = run_inline({"config": c, "seed": prog["seed"], "schedule": [["A", 1]] * n_steps,
                      "finale": prog.get("where", "inline") != "worker"})
    where = prog.get("where", "inline")
    if where == "search":
        ref = run_inline({"config": c, "seed": prog["seed"], "schedule": [["A", 1]] * n_steps, "finale": False})
        ref = [{"op": "run", "key": _key(prog) + "/digest of %d steps" % n_steps, "copy": 0, "where": "inline", "out": "ok",
                "steps": [{"t": -2, "digest": _digest(ref[0]["steps"])}]}]
        return ref + run_search(prog)
    if where == "inline":
        rest = run_inline(prog)
    elif where == "worker":
        rest = run_worker(prog)
    else:
        rest = run_fresh(prog)
    return ref + rest


CONFIGS = [{"kind": k, "n": n, "mix": mix}
           for k in ("plain", "grid", "space")
           for n, mix in ((5, "pick,shuffle,move,churn"), (3, "pick,shuffle"), (6, "shuffle,move"), (4, "pick,churn"))]
# toroidal worlds and positional queries around the agents (the window usually crosses the border of these small worlds)
SPATIAL = [{"kind": k, "n": n, "mix": mix}
           for k in ("tgrid", "tspace", "grid", "space")
           for n, mix in ((6, "near,move"), (5, "pick,near,move,churn"))]
# a one-shot system that unregisters itself, and several systems of one priority whose order shows in the trajectory
SETUPS = [{"kind": k, "n": 4, "mix": "setup,pick,shuffle,churn"} for k in ("plain", "grid", "tspace")] + \
         [{"kind": k, "n": 5, "mix": "cells,move,near"} for k in ("grid", "tgrid")]
DECODED = [{"kind": k, "n": 4, "mix": "pick,shuffle,churn", "decoded": True} for k in ("plain", "grid")]
HASHCFG = SPATIAL + SETUPS
DIRECT = CONFIGS + SPATIAL + SETUPS          # configurations built by calling the model class (batch workers, grid search)
CONFIGS = DIRECT + DECODED


def schedule_from_walk(walk):
    out = []
    for name, args in walk:
        if name == "StepCopy":
            out.append(["A", args[0]])
        elif name == "Perturb":
            out.append(["P", args[0]])
        elif name == "OtherModelStep":
            out.append(["B"])
        else:
            raise AssertionError(name)
    return out


def random_schedule(rng, steps=6):
    out = []
    left = {1: steps, 2: steps}
    while left[1] or left[2]:
        r = rng.random()
        if r < 0.25:
            out.append(["P", rng.randint(0, 2)])
        elif r < 0.4:
            out.append(["B"])
        elif r < 0.5 and (left[1] or left[2]):
            k = rng.choice([c for c in (1, 2) if left[c]])
            left[k] -= 1
            out.append(["N", k])
        else:
            k = rng.choice([c for c in (1, 2) if left[c]])
            left[k] -= 1
            out.append(["A", k])
    return out


def tamper(trace, rng):
    """Corrupt one observation of a run whose key was already seen (so that it has something to disagree with)."""
    seen = {}
    cands = []
    for i, e in enumerate(trace):
        if e["key"] in seen and e["steps"] and len(e["steps"]) <= seen[e["key"]]:
            cands.append(i)
        seen[e["key"]] = max(seen.get(e["key"], 0), len(e["steps"]))
    if not cands:
        return None
    e = trace[rng.choice(cands)]
    st = e["steps"][rng.randrange(len(e["steps"]))]
    st["t"] += 1
    return trace
