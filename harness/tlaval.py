"""Parser for the TLA+ values TLC prints (edge labels of `-dump dot,actionlabels`, PrintT output)."""


class ParseError(Exception):
    pass


class _P:
    def __init__(self, s):
        self.s = s
        self.i = 0

    def ws(self):
        while self.i < len(self.s) and self.s[self.i] in " \t\r\n":
            self.i += 1

    def peek(self, k=1):
        return self.s[self.i:self.i + k]

    def eat(self, tok):
        self.ws()
        if not self.s.startswith(tok, self.i):
            raise ParseError(f"expected {tok!r} at {self.i}: {self.s[self.i:self.i+40]!r}")
        self.i += len(tok)

    def value(self):
        self.ws()
        c = self.peek()
        if self.peek(2) == "<<":
            self.i += 2
            return self.seq(">>")
        if c == "{":
            self.i += 1
            return ("set", self.seq("}"))
        if c == "[":
            self.i += 1
            return self.record()
        if c == "(":
            self.i += 1
            return self.func()
        if c == '"':
            return self.string()
        if c == "-" or c.isdigit():
            j = self.i + 1
            while j < len(self.s) and self.s[j].isdigit():
                j += 1
            v = int(self.s[self.i:j])
            self.i = j
            return v
        j = self.i
        while j < len(self.s) and (self.s[j].isalnum() or self.s[j] in "_!"):
            j += 1
        if j == self.i:
            raise ParseError(f"unexpected {self.s[self.i:self.i+20]!r} at {self.i}")
        w = self.s[self.i:j]
        self.i = j
        if w == "TRUE":
            return True
        if w == "FALSE":
            return False
        return ("mv", w)

    def seq(self, close):
        out = []
        self.ws()
        if self.s.startswith(close, self.i):
            self.i += len(close)
            return out
        while True:
            out.append(self.value())
            self.ws()
            if self.s.startswith(close, self.i):
                self.i += len(close)
                return out
            self.eat(",")

    def string(self):
        assert self.s[self.i] == '"'
        j = self.i + 1
        out = []
        while self.s[j] != '"':
            if self.s[j] == "\\":
                j += 1
                out.append({"n": "\n", "t": "\t"}.get(self.s[j], self.s[j]))
            else:
                out.append(self.s[j])
            j += 1
        self.i = j + 1
        return "".join(out)

    def record(self):
        out = {}
        self.ws()
        if self.peek() == "]":
            self.i += 1
            return out
        while True:
            self.ws()
            j = self.i
            while self.s[j].isalnum() or self.s[j] == "_":
                j += 1
            k = self.s[self.i:j]
            self.i = j
            self.eat("|->")
            out[k] = self.value()
            self.ws()
            if self.peek() == "]":
                self.i += 1
                return out
            self.eat(",")

    def func(self):
        out = {}
        while True:
            k = self.value()
            self.eat(":>")
            v = self.value()
            out[_key(k)] = v
            self.ws()
            if self.peek() == ")":
                self.i += 1
                return out
            self.eat("@@")


def _key(k):
    if isinstance(k, list):
        return tuple(_key(x) for x in k)
    if isinstance(k, tuple) and k and k[0] == "mv":
        return k[1]
    return k


def parse(s):
    p = _P(s)
    v = p.value()
    p.ws()
    if p.i != len(p.s):
        raise ParseError(f"trailing input at {p.i}: {p.s[p.i:p.i+40]!r}")
    return v


def parse_label(label):
    """'Name(arg1,arg2)' -> (Name, [args]); 'Name' -> (Name, [])."""
    label = label.strip()
    k = label.find("(")
    if k < 0:
        return label, []
    name = label[:k]
    p = _P(label)
    p.i = k + 1
    args = p.seq(")")
    return name, args
