"""Thin runner around TLC (tla2tools 1.8.0) + output parser.

Everything that is *expected* of the implementation is computed by TLC from the TLA+
modules in /verif/spec; this module only starts TLC and reads what it printed.
"""
import os
import re
import shutil
import subprocess
import tempfile
import time

VERIF = os.path.dirname(os.path.dirname(os.path.abspath(__file__)))
SPEC = os.path.join(VERIF, "spec")
JAR = "/opt/veriftools/tla/tla2tools.jar"
CM = "/opt/veriftools/tla/CommunityModules-deps.jar"


class MachineryError(Exception):
    """TLC crashed / timed out / printed something we cannot interpret (exit code 2)."""


class TLCResult:
    def __init__(self):
        self.ok = False              # "No error has been found"
        self.violated = None         # name of violated invariant / property, or "deadlock"
        self.generated = 0
        self.distinct = 0
        self.depth = 0
        self.prints = []             # raw PrintT lines (strings starting with << or ")
        self.coverage = {}           # action name -> (distinct, total)
        self.wall = 0.0
        self.out = ""
        self.cmd = ""
        self.errors = []

    def summary(self):
        return {"ok": self.ok, "violated": self.violated, "states_generated": self.generated,
                "distinct_states": self.distinct, "depth": self.depth, "wall_s": round(self.wall, 2)}


_RE_STATES = re.compile(r"^(\d+) states generated, (\d+) distinct states found, (\d+) states left on queue", re.M)
_RE_DEPTH = re.compile(r"The depth of the complete state graph search is (\d+)")
_RE_INV = re.compile(r"Error: Invariant (\S+) is violated")
_RE_ACT = re.compile(r"Error: Action property (\S+) is violated")
_RE_COV = re.compile(r"^<(\w+) line (\d+), col \d+ to line \d+, col \d+ of module (\w+)>: (\d+):(\d+)", re.M)
_RE_SIMSTATES = re.compile(r"(\d+) states checked", re.M)


def scratch(prefix="verif-tlc-"):
    return tempfile.mkdtemp(prefix=prefix)


def run_tlc(module, cfg, **kw):
    """run_tlc_once with one retry: a JVM that dies without a verdict (memory pressure on a loaded machine) is not a verdict."""
    try:
        return run_tlc_once(module, cfg, **kw)
    except MachineryError as e:
        if "timeout" in str(e) or "missing cfg" in str(e):
            raise
        time.sleep(3)
        return run_tlc_once(module, cfg, **kw)


def run_tlc_once(module, cfg, *, workers=16, env=None, timeout=1800, coverage=False, deadlock=False,
            dump_dot=None, simulate=None, depth=None, seed=None, extra=(), heap="8g", keep=None,
            dfs=False):
    """Run TLC on /verif/spec/<module>.tla with config <cfg> (path relative to spec/ or absolute)."""
    tmp = keep or scratch()
    res = TLCResult()
    try:
        cfg_path = cfg if os.path.isabs(cfg) else os.path.join(SPEC, cfg)
        if not os.path.exists(cfg_path):
            raise MachineryError(f"missing cfg {cfg_path}")
        # (TLC leaves an empty tlc-<n> directory in java.io.tmpdir on every start: keep it inside the scratch directory)
        jopts = ["-XX:+UseParallelGC", f"-Xmx{heap}", f"-Djava.io.tmpdir={tmp}"]
        if dfs:
            jopts.append("-Dtlc2.tool.queue.IStateQueue=StateDeque")
        cmd = ["java", *jopts, "-cp", f"{JAR}:{CM}", "tlc2.TLC",
               "-config", cfg_path, "-metadir", os.path.join(tmp, "meta"), "-noGenerateSpecTE",
               "-workers", str(workers)]
        if not deadlock:
            cmd.append("-deadlock")      # -deadlock = do NOT check for deadlock
        if coverage:
            cmd += ["-coverage", "1"]
        if dump_dot:
            cmd += ["-dump", "dot,actionlabels", dump_dot]
        if simulate:
            cmd += ["-simulate", simulate]
        if depth:
            cmd += ["-depth", str(depth)]
        if seed is not None:
            cmd += ["-seed", str(seed)]
        cmd += list(extra)
        cmd.append(module)
        e = dict(os.environ)
        e.pop("JAVA_TOOL_OPTIONS", None)
        if env:
            e.update(env)
        res.cmd = " ".join(cmd)
        t0 = time.time()
        try:
            p = subprocess.run(cmd, cwd=SPEC, env=e, stdout=subprocess.PIPE, stderr=subprocess.STDOUT,
                               timeout=timeout, text=True, errors="replace")
        except subprocess.TimeoutExpired as ex:
            raise MachineryError(f"TLC timeout after {timeout}s: {res.cmd}") from ex
        res.wall = time.time() - t0
        out = p.stdout
        res.out = out
        m = None
        for m in _RE_STATES.finditer(out):
            pass
        if m:
            res.generated, res.distinct = int(m.group(1)), int(m.group(2))
        elif simulate:
            for m in _RE_SIMSTATES.finditer(out):
                res.generated = res.distinct = int(m.group(1))
        m = _RE_DEPTH.search(out)
        if m:
            res.depth = int(m.group(1))
        res.ok = "No error has been found" in out or (simulate is not None and "Error:" not in out)
        m = _RE_INV.search(out)
        if m:
            res.violated = m.group(1)
        m = _RE_ACT.search(out)
        if m and not res.violated:
            res.violated = m.group(1)
        m = re.search(r"Error: Temporal property (\S+) was violated", out)
        if m and not res.violated:
            res.violated = m.group(1)
        if "Temporal properties were violated" in out and not res.violated:
            res.violated = "temporal"
        if "Deadlock reached" in out and not res.violated:
            res.violated = "deadlock"
        acc = None
        for line in out.splitlines():
            s = line.strip()
            if acc is not None:
                # TLC's pretty printer wraps long values: glue the block back together
                acc += " " + s
                if s.endswith(">>") and acc.count("<<") == acc.count(">>"):
                    res.prints.append(acc)
                    acc = None
                elif len(acc) > 200000:
                    acc = None
                continue
            if s.startswith("<<"):
                if s.endswith(">>") and s.count("<<") == s.count(">>"):
                    res.prints.append(s)
                else:
                    acc = s
            elif s.startswith('"') and s.endswith('"'):
                res.prints.append(s)
        for m in _RE_COV.finditer(out):
            name = m.group(1)
            d, t = int(m.group(4)), int(m.group(5))
            od, ot = res.coverage.get(name, (0, 0))
            res.coverage[name] = (od + d, ot + t)
        if not res.ok and not res.violated:
            res.errors = [ln for ln in out.splitlines() if "rror" in ln][:20]
            raise MachineryError("TLC failed without a property verdict:\n" + "\n".join(out.splitlines()[-40:]))
        return res
    finally:
        if keep is None:
            shutil.rmtree(tmp, ignore_errors=True)


def sany(module):
    p = subprocess.run(["java", "-cp", f"{JAR}:{CM}", "tla2sany.SANY", module], cwd=SPEC,
                       stdout=subprocess.PIPE, stderr=subprocess.STDOUT, text=True)
    if p.returncode != 0 or "Semantic errors" in p.stdout or "Parse Error" in p.stdout or "Fatal" in p.stdout:
        raise MachineryError("SANY rejected " + module + "\n" + p.stdout[-3000:])
    return True


def expect_holds(res, what):
    if not res.ok:
        raise AssertionError(f"{what}: TLC reports {res.violated}")


def vacuity(res, required_actions):
    """Actions that must have fired at least once in an exhaustive run (needs coverage=True)."""
    missing = [a for a in required_actions if res.coverage.get(a, (0, 0))[1] == 0]
    if missing:
        raise MachineryError(f"vacuous run: actions never taken: {missing}")


def tlaps(module_path, same_defs_as=None, def_names=(), timeout=600):
    """Run the TLA+ proof system on a module (in a scratch copy: tlapm writes a cache next to it).
    Returns (obligations, proved).  same_defs_as: a module whose definitions `def_names` must be textually identical."""
    import re as _re
    src = open(module_path).read()
    if same_defs_as:
        other = open(same_defs_as).read()
        for name in def_names:
            m = _re.search(r"^%s\([^)]*\)\s*==.*$" % _re.escape(name), src, _re.M)
            if not m or " ".join(m.group(0).split()) not in " ".join(other.split()):
                raise MachineryError(f"definition of {name} in {module_path} differs from {same_defs_as}")
    tmp = scratch("verif-tlaps-")
    try:
        shutil.copy(module_path, tmp)
        p = subprocess.run(["tlapm", os.path.basename(module_path)], cwd=tmp, stdout=subprocess.PIPE, stderr=subprocess.STDOUT,
                           text=True, timeout=timeout)
        m = _re.search(r"All (\d+) obligations? proved", p.stdout)
        if m:
            return int(m.group(1)), int(m.group(1))
        m = _re.search(r"(\d+)/(\d+) obligations? failed", p.stdout)
        if m:
            return int(m.group(2)), int(m.group(2)) - int(m.group(1))
        raise MachineryError("tlapm gave no verdict:\n" + p.stdout[-1500:])
    finally:
        shutil.rmtree(tmp, ignore_errors=True)


def apalache_inductive(module_path, *, init="IndInit", inv="Inv", nxt="Next", mutate=None, timeout=1800):
    """apalache-mc check --init=IndInit --inv=Inv --length=1 on a (scratch copy of a) typed module.
    mutate: optional list of (old, new) text substitutions applied to the copy (negative controls).  Returns "NoError" | "Error"."""
    tmp = scratch("verif-apa-")
    try:
        src = open(module_path).read()
        for a, b in (mutate or ()):
            if a not in src:
                raise MachineryError(f"negative-control substitution not applicable to {module_path}: {a}")
            src = src.replace(a, b)
        dst = os.path.join(tmp, os.path.basename(module_path))
        with open(dst, "w") as f:
            f.write(src)
        p = subprocess.run(["apalache-mc", "check", f"--init={init}", f"--inv={inv}", f"--next={nxt}", "--length=1",
                            f"--out-dir={os.path.join(tmp, 'out')}", os.path.basename(module_path)],
                           cwd=tmp, stdout=subprocess.PIPE, stderr=subprocess.STDOUT, text=True, timeout=timeout)
        if "The outcome is: NoError" in p.stdout:
            return "NoError"
        if "The outcome is: Error" in p.stdout and "invariant" in p.stdout:
            return "Error"
        raise MachineryError("apalache gave no verdict:\n" + p.stdout[-1500:])
    finally:
        shutil.rmtree(tmp, ignore_errors=True)
