"""The repository's own test-suite as a source of traces: run it with the env-guarded tracer (ECAgent/_verif.py), then have TLC
validate every recorded operation transition by transition (pre-state -> operation -> post-state) against the specification."""
import json
import os
import subprocess
import tempfile

from . import judge as judge_mod, tlc
from .drivers import common

SCHED_OPS = {"add_system", "remove_system", "complete", "execute_systems"}
SPACE_OPS = {"place", "move", "move_to", "leave_space"}
POP_OPS = {"join", "leave", "attach", "detach", "register", "deregister"}


def record(repo=None, timeout=900):
    repo = repo or common.REPO
    if not os.path.exists(os.path.join(repo, "ECAgent", "_verif.py")):
        return None
    fd, path = tempfile.mkstemp(prefix="verif-suite-", suffix=".jsonl")
    os.close(fd)
    try:
        env = dict(os.environ)
        env["ECAGENT_VERIF_TRACE"] = path
        env["PYTHONDONTWRITEBYTECODE"] = "1"
        p = subprocess.run(["/venv/bin/python", "-m", "pytest", "-q", "-p", "no:cacheprovider", "--timeout=900", "-x", "tests"],
                           cwd=repo, env=env, stdout=subprocess.PIPE, stderr=subprocess.STDOUT, text=True, timeout=timeout)
        tail = p.stdout.strip().splitlines()[-1] if p.stdout.strip() else ""
        events = []
        with open(path) as f:
            for line in f:
                try:
                    e = json.loads(line)
                except Exception:  # noqa: BLE001
                    continue
                e.setdefault("unsupported", False)
                for k in ("args", "pre", "post"):
                    if e.get(k) is None:
                        e[k] = {}
                        e["unsupported"] = True
                e.setdefault("ran", [])
                events.append(e)
        return {"events": events, "pytest": tail, "rc": p.returncode}
    finally:
        os.unlink(path)


def validate(ctx, family, events):
    """family: 'sched' | 'space' | 'pop'.  Returns (accepted, skipped, rejected)."""
    if family == "sched":
        evs = [e for e in events if e["op"] in SCHED_OPS]
        module, cfg = "Scheduler_Suite.tla", "Scheduler_Suite.cfg"
    elif family == "pop":
        evs = [e for e in events if e["op"] in POP_OPS]
        module, cfg = "Population_Suite.tla", "Population_Suite.cfg"
    else:
        evs = [e for e in events if e["op"] in SPACE_OPS]
        module, cfg = "World_Suite.tla", "World_Suite.cfg"
    # distinct transitions only (the suite repeats many)
    seen, uniq = set(), []
    for e in evs:
        key = json.dumps({k: e[k] for k in ("op", "args", "out", "pre", "post", "ran", "unsupported")}, sort_keys=True)
        if key not in seen:
            seen.add(key)
            uniq.append(e)
    traces = [[e] for e in uniq]
    source = f"repository test-suite under the tracer, {family} operations, transition-wise ({len(uniq)} distinct of {len(evs)} recorded)"
    verdicts = judge_mod.judge(module, cfg, traces, chunk=3000)
    acc = skip = rej = 0
    for v, tr in zip(verdicts, traces):
        if v.accepted and any("skipped" in d for d in v.devsets):
            skip += 1
        elif v.accepted:
            acc += 1
        else:
            rej += 1
            ctx._violation(module, cfg, None, tr, v, source, "the recorded operation is not a step of the specification from its recorded pre-state", None)
    if family == "pop":
        # binding control: a recorded join whose logged post-listing loses an entry must be rejected
        import copy
        cand = [tr[0] for v, tr in zip(verdicts, traces)
                if v.accepted and not any("skipped" in d for d in v.devsets) and tr[0]["op"] == "join" and tr[0]["out"] == "ok"
                and tr[0]["post"].get("pools") and tr[0]["post"]["pools"][0][1]]
        if cand:
            bad = copy.deepcopy(cand[0])
            bad["post"]["pools"][0][1] = bad["post"]["pools"][0][1][:-1]
            v = judge_mod.judge(module, cfg, [[bad]], chunk=10)[0]
            if v.accepted:
                raise tlc.MachineryError("tamper control: a recorded join with a listing entry removed was accepted")
            ctx.controls.append("suite traces (population): a recorded join with one listing entry removed from the logged post-state is rejected")
    ctx.traces_validated += acc
    ctx.events += acc
    ctx.evaluations += len(uniq)
    ctx.sources[source] = {"traces": len(uniq), "events": len(uniq), "accepted": acc, "skipped_not_judged": skip}
    from .runner import log
    log(f"  {source}: {acc} accepted, {skip} skipped (pre-state outside the specification), {rej} rejected")
    return acc, skip, rej


def run(ctx, families):
    rec = record()
    if rec is None:
        ctx.notes.append("tracer hook not present in the tree: suite traces not validated")
        return
    if "passed" not in rec["pytest"] or "failed" in rec["pytest"]:
        ctx.notes.append("the repository's test-suite does not pass under the tracer: " + rec["pytest"])
    for fam in families:
        validate(ctx, fam, rec["events"])
