"""Batched trace validation: TLC is the judge.

judge(module, cfg, traces) writes the traces to a JSON file, runs TLC on the trace specification
(`<X>_Trace.tla`, which reuses the actions of `<X>.tla`) and reads which traces were accepted, and with
which named deviation actions.  Python computes no expectation.
"""
import concurrent.futures as cf
import json
import os
import re
import shutil

from . import tlc

_RE_ACCEPT = re.compile(r'^<<\s*"ACCEPT",\s*(\d+),\s*\{(.*)\}\s*>>$')
_RE_AT = re.compile(r'^<<\s*"AT",\s*(\d+),\s*(\d+),\s*(.*?)\s*>>$')


class Verdict:
    __slots__ = ("accepted", "devsets", "at", "state", "n_events")

    def __init__(self):
        self.accepted = False
        self.devsets = []      # list of frozensets of deviation names with which the trace is accepted
        self.at = None         # 1-based index of the first event no specification step explains
        self.state = None      # specification state (TLA+ text) before that event
        self.n_events = 0

    @property
    def clean(self):
        return self.accepted and any(len(d) == 0 for d in self.devsets)

    def min_dev(self):
        return sorted(min(self.devsets, key=lambda d: (len(d), sorted(d)))) if self.devsets else []


def _run_chunk(module, cfg_text, traces, extra_doc, env_extra, timeout, diag, heap):
    tmp = tlc.scratch("verif-judge-")
    try:
        tf = os.path.join(tmp, "traces.json")
        doc = {"traces": traces}
        if extra_doc:
            doc.update(extra_doc)
        with open(tf, "w") as f:
            json.dump(doc, f, separators=(",", ":"))
        cfg = os.path.join(tmp, "trace.cfg")
        with open(cfg, "w") as f:
            f.write(cfg_text + ("\nINVARIANT Progress\n" if diag else "\n"))
        env = {"TRACE_FILE": tf}
        if env_extra:
            env.update(env_extra)
        res = tlc.run_tlc(module, cfg, workers=1, env=env, timeout=timeout, heap=heap)
        if not res.ok:
            raise tlc.MachineryError(f"trace validation run ended with {res.violated}:\n" + res.out[-3000:])
        return res
    finally:
        shutil.rmtree(tmp, ignore_errors=True)


def judge(module, cfg, traces, *, extra_doc=None, env=None, chunk=3000, timeout=1800, parallel=8,
          diagnose=True, heap="4g", stats=None):
    """Validate `traces` (list of lists of event dicts). Returns list[Verdict] in the same order."""
    cfg_path = cfg if os.path.isabs(cfg) else os.path.join(tlc.SPEC, cfg)
    cfg_text = open(cfg_path).read()
    verdicts = [Verdict() for _ in traces]
    for v, t in zip(verdicts, traces):
        v.n_events = len(t)
    if not traces:
        return verdicts
    chunks = [(i, traces[i:i + chunk]) for i in range(0, len(traces), chunk)]
    tot_states = 0
    wall = 0.0

    eval_errors = {}

    def work(item):
        off, trs = item
        try:
            return [(off, _run_chunk(module, cfg_text, trs, extra_doc, env, timeout, False, heap))]
        except tlc.MachineryError as e:
            # TLC could not evaluate some event (an implementation returned something outside the trace
            # vocabulary): isolate the offending trace(s) by bisection; they count as not accepted
            if len(trs) == 1:
                msg = str(e)
                k = msg.find("Error:")
                eval_errors[off] = "TLC evaluation error: " + " ".join((msg[k:k + 600] if k >= 0 else msg[-600:]).split())
                return []
            mid = len(trs) // 2
            return work((off, trs[:mid])) + work((off + mid, trs[mid:]))

    with cf.ThreadPoolExecutor(max_workers=max(1, min(parallel, len(chunks)))) as ex:
        for off, res in (x for lst in ex.map(work, chunks) for x in lst):
            tot_states += res.distinct
            wall += res.wall
            for line in res.prints:
                m = _RE_ACCEPT.match(line)
                if m:
                    v = verdicts[off + int(m.group(1)) - 1]
                    v.accepted = True
                    devs = frozenset(x.strip().strip('"') for x in m.group(2).split(",") if x.strip())
                    if devs not in v.devsets:
                        v.devsets.append(devs)
    for i, msg in eval_errors.items():
        verdicts[i].at, verdicts[i].state = None, msg
    rejected = [i for i, v in enumerate(verdicts) if not v.accepted and i not in eval_errors]
    if rejected and diagnose:
        sub = rejected[:200]
        res = _run_chunk(module, cfg_text, [traces[i] for i in sub], extra_doc, env, timeout, True, heap)
        best = {}
        for line in res.prints:
            m = _RE_AT.match(line)
            if m:
                k, at = int(m.group(1)), int(m.group(2))
                if k not in best or at > best[k][0]:
                    best[k] = (at, m.group(3))
        for k, i in enumerate(sub, start=1):
            if k in best:
                verdicts[i].at, verdicts[i].state = best[k]
    if stats is not None:
        stats["judge_states"] = stats.get("judge_states", 0) + tot_states
        stats["judge_wall_s"] = round(stats.get("judge_wall_s", 0.0) + wall, 2)
        stats["events"] = stats.get("events", 0) + sum(len(t) for t in traces)
        stats["traces"] = stats.get("traces", 0) + len(traces)
    return verdicts
