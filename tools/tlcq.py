#!/venv/bin/python
"""tlcq.py <module.tla> <cfg>...  -- one summary line per config (developer helper)."""
import sys, os
sys.path.insert(0, os.path.dirname(os.path.dirname(os.path.abspath(__file__))))
from harness import tlc
mod = sys.argv[1]
for c in sys.argv[2:]:
    try:
        r = tlc.run_tlc(mod, c, timeout=int(os.environ.get("T", "600")))
        print(c, r.summary())
    except Exception as e:
        msg = str(e)
        k = msg.find("Error")
        print(c, "FAILED:", " | ".join(msg[k:k + 700].splitlines()[:8]))
