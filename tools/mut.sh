#!/bin/sh
# tools/mut.sh '<sed expr>' <file under ECAgent/> <check ids...>
# developer helper: runs checks against a mutated scratch COPY of /repo/ECAgent (never touches /repo or evidence/)
set -e
expr="$1"; file="$2"; shift 2
rm -rf /tmp/mut && mkdir -p /tmp/mut/ev && cp -r /repo/ECAgent /tmp/mut/
sed -i "$expr" /tmp/mut/ECAgent/$file
if diff -q /repo/ECAgent/$file /tmp/mut/ECAgent/$file >/dev/null; then echo "MUTATION DID NOT APPLY"; exit 3; fi
diff /repo/ECAgent/$file /tmp/mut/ECAgent/$file | head -6
for c in "$@"; do
  VERIF_REPO=/tmp/mut VERIF_EVIDENCE_DIR=/tmp/mut/ev VERIF_REPLAY_DIR=/tmp/mut/ev /verif/check $c 2>&1 | grep -E "^VIOLATION|^== .* held|MACHINERY" | head -2 | cut -c1-200
done
rm -rf /tmp/mut
