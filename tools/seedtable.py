#!/usr/bin/env python3
"""Regenerates the table of seeded changes in DESIGN.md (section 11.5) from /verif/seeded/*/{meta,result_*}.json."""
import glob
import json
import os
import re

VERIF = os.path.dirname(os.path.dirname(os.path.abspath(__file__)))
NOTES = {
    "C03_a": "pools of >= 3 entries were rare: added carrier permutations", "C03_b": "driver components were always truthy: type C is now an empty container",
    "C07_b": "no framework draw after completion: added post-completion pick/shuffle", "C09_b": "get_cell never repeated after a removal: added",
    "C10_b": "fresh PositionComponent per query: one persistent component is now moved between queries",
    "C16_a": "no large-magnitude / small-spread float scores: offset 2^40 for variance modes",
    "C17_b": "constant records per collection: per-timestep plans with whole empty flush groups",
    "C05_a": "first run ended with exit 2 under heavy machine load (transient); detected on re-run",
    "C03_c": "agents only joined the model they were built for: World.Join takes the target model, guest agents added",
    "C03_d": "unrelated component types only: derived type D(B) added", "C04_c": "unfiltered listing asked after every call: now every third call is skipped",
    "C06_d": "default logger only: models with a user logger not enabled for INFO", "C07_c": "integer seeds only: str / float seeds in fresh interpreters",
    "C07_d": "fixture declared `seed` explicitly: kwargs-forwarding subclass in the batch-worker runs",
    "C08_c": "dyadic coordinates only: exact-saturation events for non-dyadic float extents", "C10_c": "offsets 0/.25/.5/.75 only: 0.9999999 added",
    "C11_c": "writable arrays only: read-only view of a caller-owned buffer", "C11_d": "fresh LookupGenerator per component: one generator re-used, table replaced",
    "C13_c": "templates of distinct types only: repeated types added", "C14_c": "one list per dictionary: twin list from the same dictionary, caller keeps using it",
    "C16_d": "fresh parameters per search: 2-3 searches re-using one ParameterList", "C17_c": "composite returned a fresh dict: one shared dict updated in place",
    "C17_d": "environment never replaced: replaced after the collectors were built", "C18_c": "model always running while decoding: model handed over already complete",
    "C19_c": "no underscore-prefixed ordinary names: added",
    "C03_f": "environments were installed before they were populated: environments populated first and installed later (`install`)",
    "C04_e": "guest agents only in C03's runs: also in C04's", "C06_e": "every system was bound to the host model: every third object is bound to another running model",
    "C06_f": "throw_error only passed as True: also as 1", "C09_e": "grid worlds never wrapped: wrap on for half of the worlds",
    "C11_e": "integer constants only: list-like constant as long as the number of cells", "C12_e": "query results were never edited: edited and the same query asked again",
    "C12_f": "integer query points / leeways in grid worlds: quarter-cell queries (`qs = 4`)", "C13_f": "queries only on installed environments: late-installed environments",
    "C15_e": "no batch without executions: empty value list / zero repetitions x process counts",
    "C15_f": "fresh parameters per batch: 2-4 batches on one ParameterList with add/remove in between",
    "C17_f": "no system changed the system set in the collector runs: a one-shot system unregisters itself directly before the collectors",
    "C18_e": "environment never replaced while decoding: the first group's pre hook installs a new environment",
    "C19_f": "ASCII names only: names outside NFKC normal form", "C20_e": "all classes defined before any tag change: class L defined mid-history",
    "C20_f": "unrelated component types only: derived type R(P)",
    "C05_h": "one change of the system set per running system in the quick tier: two-removal / add+remove scripts, five systems, two actors",
    "C07_g": "no repetitions inside grid_search: three repetitions of one seed, trajectory digests", "C07_h": "other models only stepped BETWEEN timesteps: also from inside a system",
    "C13_g": "residents never gained components in C13's runs: they do now (C03's known findings tolerated there)",
    "C14_h": "name literals were the same interned objects: equal strings built at run time",
    "C02_j": "plain System subclasses only: every fourth scripted system is built on Collector",
    "C03_j": "listings only read between timesteps: composition traces (systems changing the population mid-timestep) in C03",
    "C04_i": "models never completed in the world driver: `complete_model` while the population keeps changing",
    "C13_i": "models never completed in the world driver: `complete_model`, then queries",
    "C07_i": "no neighbourhood lists shuffled in place: the grid model shuffles the list the world hands out",
    "C09_i": "generators never read the component they replace: `halve` re-adds a component from its own current values",
    "C15_i": "static collectors only: a fixture that replaces its collector after a burn-in phase",
    "C15_j": "one list per dictionary: a sibling list from the same dictionary is edited before the batch",
    "C16_j": "large magnitudes only as multiples of 2^61: integer scores 10^18 + s for MIN/MAX/SUM",
    "C17_i": "unique collector ids: a second collector under a taken id (must be rejected, the first keeps recording)",
    "C18_j": "only the set of systems was compared: the decoded model is stepped once and the run order compared with the declared scheduling",
    "C19_i": "the list returned by itemize() was never edited: it is now", "C20_i": "all class components built for one model: alternating models",
    "C04_j": "NOT detected - outside the quantifier (extent strictly between 0 and 1; the statement lists extents 0 or >= 1; observation O5)",
    "C06_j": "NOT detected - outside the quantifier (needs `priority` changed after registration; only the order of a completed model's queue changes)",
    "C07_j": "NOT detected - outside the quantifier (an environment that already drew for one model is handed to a second model with set_model)",
    "C17_j": "NOT detected by C17 - it is C04's defect class (duplicate-id check on a component-less resident; C04's check detects the same edit, C04_a)",
    "C18_i": "NOT detected - outside the quantifier (a pre hook that imports the group's module or rebinds its class name)",
    "C04_l": "only whole-cell coordinates outside a grid: out-of-grid placements half a cell nearer to the grid",
    "C11_l": "homogeneous integer lists only: lists mixing numbers and text, lists of tuples; a value must come back with the Python type it was supplied with",
    "C13_l": "tag values were the same small-int objects: equal but separately created ints (1000, 70000, -7)",
    "C15_k": "numeric parameters declared as lists only: a text parameter declared as the bare string, through the dictionary and through add_parameter",
    "C16_k": "grids of distinct values only: grids listing equal values more than once (1, 1.0, True - told apart by type in the fixture)",
    "C18_k": "declared `end` never 0: systems that run at timestep 0 only",
    "C19_k": "no format-string characters in names: `%s`, `50%`, `{0}`, `%(x)s`, newline, backslash",
    "C08_l": "NOT detected - outside the quantifier (the coordinate on an axis of extent 0, which the statement leaves open: containment and landing are claimed for axes of positive extent; DESIGN 3.2)",
}
NOTES.update({
    "C05_m": "the harness itself was killed (no verdict): the change makes a system run for ever and the driver logged until memory ran out; driver programs now run under a time / memory budget and a runaway program is a violation",
    "C07_n": "all systems of the stochastic model had distinct priorities: a one-shot system that unregisters itself and four systems sharing one priority",
    "C10_m": "returned neighbourhood lists were never edited in C10's runs: every returned list is reversed and shortened by the driver",
    "C11_n": "integer arrays only: float64 arrays with values that no narrower float type represents, compared as doubles",
    "C12_n": "coincident agents and exact point queries were rare: placements and moves onto another agent's spot, zero-leeway queries at an agent's position",
    "C18_m": "every entry named its module: descriptions whose hooks and / or classes omit `module` (documented default `__main__`)",
    "C20_m": "a fresh component object per class attachment: one object attached to several classes (a serial names one object)",
    "C20_n": "the tag argument was either given or omitted: `tag=None` spelled out, by keyword and by position",
})
NOTES.update({
    "C03_o": "the explicit calls were only used on residents: `register_raw` / `deregister_raw` on their own, also for agents that are not resident; World!JoinHalfway models the join that meets a hand-registered component",
    "C07_o": "no cell layer in the stochastic models: a resource layer built from one raster the program keeps, eaten from in place, two copies of the model in one process",
    "C07_p": "mode strings were literals (interned, identical objects): the mode is put together at run time; a run that raises is now an event, not a machinery failure",
    "C09_o": "C09's worlds only had callable / integer-list / constant components: mixed lists and lists of tuples",
    "C09_p": "scalar constants only in C09's worlds: list-like constants, as long as the number of cells and of unrelated length",
    "C11_o": "small-valued generators only: a generator whose arithmetic passes through numbers far beyond 64 bits",
    "C11_p": "generators were plain two-argument lambdas: bound defaults (`k=k`), functools.partial, objects with __call__",
    "C15_o": "collector selection was one name or two names: a list holding one name (result shape logged and checked)",
    "C15_p": "NOT detected - outside what the statement fixes: with one process it demands that 'the results follow product order'; repetition-major (as implemented) and combination-major order both do, and the specification accepts both (stated assumption of C15)",
    "C17_p": "collectors were registered first or last: registered between two ordinary systems",
    "C18_o": "class names were unique across modules: classes of the same name in the fixtures module and in `__main__`, the class actually used is logged and checked",
    "C20_p": "instance tags were read right after creation: every second default-tag instance is first looked at after the next change of a class default",
})
NOTES.update({
    "C01_q": "histories of tens of operations: a system switched off and on 5000 / 70000 times (`churn`; only the last round trip is logged, the others leave the registry as it is)",
    "C01_r": "C01's histories had no activity windows: histories whose windows close while the model runs",
    "C02_q": "one model per program: a second model alive at the same time registers systems under the same ids with shifted windows and is stepped in between",
    "C04_r": "NOT detected - outside the quantifier (needs a component whose `agent` field names another resident, e.g. a copy.copy of the parent's component: C03 / C04 assume every component instance belongs to the agent that carries it)",
    "C07_q": "models were built by calling their class: configurations decoded from a JSON description that the model keeps a list of, every copy from the same file",
    "C07_r": "NOT detected by C07 - it is C18's defect class (classes memoised by name only; C18's check detects the same edit, C18_o)",
    "C09_q": "C09's worlds had no array-sourced layer that the caller keeps writing to: added",
    "C09_r": "get_cell was called with all three coordinates except in line worlds: trailing zeros are left out in every kind of world",
    "C10_r": "grid worlds without agents: none, one or two residents",
    "C12_q": "NOT detected - outside the quantifier (a second spatial world attached to the same Model beside its environment)",
    "C12_r": "all coordinates were always passed: trailing zeros are left out every other call (move, move_to, add_agent, get_agents_at)",
    "C13_q": "all agents were plain `Agent` instances: every third one is of a subclass whose class carries components of two of the template types",
    "C14_r": "first elements were truthy: collections starting with None, 0 / False, the empty string",
    "C15_q": "failing executions raised the fixture's own exception: StopIteration (and the library's documented errors - which led to defect D9 and finding F7)",
    "C15_r": "selections were a name or a list: tuples of one and two names",
    "C16_r": "grid values were lists: one-shot iterables (generator, map, iter)",
    "C18_r": "the stock JsonDecoder only: a user-written decoder (extension point open_file) that parses a description once, and descriptions decoded again",
    "C19_r": "no keyword-like names: `in`, `in_`, `class`, `class_`, `None`, substrings of NONE",
})
NOTES.update({
    "C02_s": "C02's histories had no systems that let themselves go: every fourth history has mutating scripts (clean_up, removal and registration of others) and re-registrations",
    "C03_t": "a detach followed by attach + register of a fresh instance of the same type was rare: `swap` sequences on residents",
    "C04_s": "agents in C04's histories rarely carried components: more components (three or more holders of a type)",
    "C04_t": "the environment's own identifier was never used as an agent identifier / looked up: `ENVIRONMENT` is one of the ids",
    "C05_t": "the driver re-configured a system object whenever it registered it again: an unchanged configuration now leaves the object exactly as the library left it",
    "C06_t": "the error flag was only passed by keyword: also by position",
    "C07_s": "systems were only registered while the model was built: a one-shot set-up system registers four equal-priority systems from inside its execute()",
    "C08_s": "dyadic coordinates in wrapping worlds: decimal starts and deltas (several laps) in continuous wrapping worlds with arbitrary float extents, landing point compared with the statement's own formula",
    "C09_s": "C09's array layers were integer arrays: float64 arrays of decimal fractions",
    "C09_t": "no lookup layers in C09's worlds: two layers from one lookup generator whose table is replaced in between (generic worlds)",
    "C10_s": "no rejected neighbourhood query: every fourth query is preceded by one with an unsupported return type",
    "C10_t": "position components of nobody: components owned by an agent that is not in the world",
    "C11_t": "truthy or zero constants only: the constant False (must come back as a false bool)",
    "C12_t": "every answer was edited or dropped at once: every other answer is kept unedited and compared with itself after the next query",
    "C13_t": "the driver logged the tag it read back: it logs the tag it asked for (explicit, else the class default at that moment); a class with a non-zero default tag",
    "C15_s": "no parameter value None, labels not part of a run's signature: label None, label index in the signature",
    "C16_s": "a re-used list always kept its values: the grid is shifted between two searches (remove + declare again)",
    "C18_s": "every system entry declared all scheduling keys: keys with the documented default value are left out of every other entry",
    "C19_s": "`__weakref__` and attributes inherited from object (`__eq__`, `__repr__`, `__hash__`) were not among the reserved names tried",
    "C20_s": "class components were built for nobody (agent None): built for the class they are first attached to, as the library's tests do",
    "C20_t": "class components were always truthy: type Q is an empty container",
})
NOTES.update({
    "C01_u": "priorities of ordinary size: whole histories shifted by 2^62, -2^62, 2^53 or close to sys.maxsize (same order, neighbouring integers no longer distinct as floats)",
    "C03_u": "populations of at most eight: a crowd of 14 carriers whose listing grows beyond ten entries, shrinks to a handful and grows again",
    "C07_u": "the other model stepped in between lived in the same kind of world: it lives in a line world next to grid models (and in a grid world otherwise)",
    "C07_v": "one batch per session: a second study in worker processes after the program changed a module-level setting (KNOB), compared with an in-process run",
    "C08_u": "a step, an absolute move and the very same step again were rare: generated as a pattern",
    "C09_u": "generators returned values of one kind: an int at the first cell, n + 0.5 elsewhere",
    "C09_v": "NOT detected - outside the statement (needs a generator whose answer depends on how often it has been called before; the statement ties a cell's value to the generator's value for that cell's coordinates)",
    "C11_u": "lookup tables were nested lists: numpy tables whose axes were rearranged so that x comes first (transposed views)",
    "C13_u": "few leaves between unfiltered picks: heavy-turnover histories with unfiltered picks and shuffles",
    "C14_u": "elements of collections were scalars: tuples as elements (must stay tuples), numbers of mixed types",
    "C15_u": "batches of one program ran under one setting: a module-level setting that is part of every run's signature changes between the batches of a program",
    "C15_v": "integer parameter values: numbers of mixed types and tuples (the fixture recomputes a type-and-value code from what it receives)",
    "C16_u": "NOT detected - below the resolution of the specification (aggregates of float scores are compared to 1e-9 relative; `fmean` differs from the correctly rounded mean by one unit in the last place, which only shows as a broken tie between means of decimal fractions that are equal as reals)",
    "C16_v": "no parameter named seed in the grids: some grids seed their models",
    "C18_u": "the hook names stayed bound to the same function objects: every decode binds fresh function objects under the hook names and counts calls that reach an older one",
    "C19_u": "no tags named after builtins that the module itself uses (`enumerate`, `str`, `len`, ...)",
    "C19_v": "names that resolve on the library CLASS were not looked up on the global library: only what the module object itself resolves is skipped now",
})
NOTES.update({
    "C02_w": "the other model only changed its system set together with this one: it also registers systems of its own between two steps of this model",
    "C04_w": "NOT detected - outside the quantifier (several environments attached to one Model beside its environment; emptying one of them)",
    "C04_x": "NOT detected - outside the specification's state space (an agent resident in two environments at once: `World.tla` keeps an agent in at most one environment, cf. observation O1)",
    "C05_w": "the other model was only stepped between this model's timesteps: scripts step it from inside a timestep, before they change the system set",
    "C05_x": "as C05_w",
    "C06_x": "a completing system only ended its own model: it ends the other model of the program right afterwards (first only in random histories, where the re-evaluation missed it; now every second program of the completion product lives beside a second model)",
    "C07_x": "NOT detected by C07 - it is C14's / C15's defect class (a ParameterList that keeps the caller's dictionary; C14's and C15's checks detect the same edit)",
    "C08_w": "C08's histories had one world: two worlds alive at once whose agents carry the same ids",
    "C11_x": "module-level generators never looked at the world's table: `colcount` (position code + number of columns the table has)",
    "C12_w": "C12's histories had one world: two worlds alive at once whose agents carry the same ids",
    "C13_x": "component class names were unique: a second, unrelated component class that is also named `A`",
    "C15_w": "one empty-built list per (isolated) program: a second list is created empty and filled with something else first",
    "C15_x": "selections were fresh objects: the batches of one program pass the same list object, edited in place in between",
    "C16_x": "detection depended on which object re-used an address (detected by the first version, missed by the re-evaluation): tuning-loop programs now write a fresh dict grid per search right after the previous one is gone",
    "C16_w": "grid_search was given dictionaries or dictionary-built lists: two lists created empty in one program and filled differently",
    "C18_x": "model parameters were always all declared: a parameter at its default is left out of every other description",
    "C20_x": "instance components were always new objects: now and then the very object that is a class component somewhere is given to an instance",
    # round 13
    "C01_z": "collectors among the scheduled systems were built with keyword arguments: a file collector that forwards (priority, frequency, start, end) by position, as ECAgent's own collectors do (scheduler driver serial 4; collectors driver LineFile) - now C01 and C17 both detect it",
    "C03_z": "agents always left through remove_agent: every fifth departure uses the deprecated, still public spelling removeAgent",
    "C07_z": "the fixture models passed their seed by keyword: half of them pass it by position, as the repository's own example models do",
    "C15_y": "every call spelled out processes= and repetitions=: arguments at their documented defaults are left out of every other call (batch_run and grid_search)",
    "C15_z": "NOT detected by C15 - it is C07's defect class (a framework draw taken from the global generator); C07's check detects the same edit",
    "C20_y": "has_class_component / has_component were only asked about one type: every observation asks templates of 0, 2 and 3 types (specification: conjunction over the listed types)",
})
ROUNDS = "abcdefghijklmnopqrstuvwxyz"


def main():
    rows = []
    for d in sorted(glob.glob(os.path.join(VERIF, "seeded", "*", ""))):
        name = os.path.basename(d.rstrip("/"))
        if not os.path.exists(d + "result_quick.json"):
            continue                      # imported, not yet evaluated with the current checks
        m = json.load(open(d + "meta.json"))
        now = json.load(open(d + "result_quick.json")) if os.path.exists(d + "result_quick.json") else {}
        first = json.load(open(d + "result_first.json")) if os.path.exists(d + "result_first.json") else None
        det = ",".join(now.get("detected_by", [])) or "MISSED"
        if name in NOTES:
            fv = NOTES[name] if NOTES[name].startswith("NOT detected") else "missed - " + NOTES[name]
        elif first is not None:
            fv = "detected" if first.get("detected_by") else "missed"
        else:
            fv = "detected"
        rows.append(f"| {name} | {m['what'][:170].replace('|', '/')} | {m['needs'][:150].replace('|', '/')} | {det} | {fv} |")
    total = len(rows)
    own = sum(1 for r in rows if r.split(" | ")[3] not in ("MISSED",) and r.split(" | ")[3].split(",")[0] == r.split(" | ")[0][2:5])
    names = {r.split(" | ")[0][2:] for r in rows}
    outside = sum(1 for k, n in NOTES.items() if k in names and (n.startswith("NOT detected - outside") or n.startswith("NOT detected - below")))
    lost = sum(1 for k, n in NOTES.items() if k in names and n.startswith("NOT detected any more"))
    other = total - own - outside - lost
    firsts = {}
    for d in sorted(glob.glob(os.path.join(VERIF, "seeded", "*", ""))):
        if not os.path.exists(d + "result_quick.json"):
            continue
        name = os.path.basename(d.rstrip("/"))
        suffix = name.split("_", 1)[1]
        rnd = 14 if len(suffix) == 2 else ROUNDS.index(suffix) // 2 + 1
        f = json.load(open(d + "result_first.json")) if os.path.exists(d + "result_first.json") else None
        missed = (name in NOTES) if f is None else not f.get("detected_by")
        firsts[rnd] = firsts.get(rnd, 0) + (1 if missed else 0)
    head = ("\n### 11.5 Independently seeded changes (`/verif/seeded/<id>/`)\n\n"
            f"{total} changes were produced in {max(firsts)} rounds by fresh sub-agents that saw only the text of one property and a scratch worktree "
            "(two per property and round; ids `_a`,`_b` = round 1, `_c`,`_d` = round 2, `_e`,`_f` = round 3, `_g`,`_h` = round 4, `_i`,`_j` = round 5, `_k`,`_l` = round 6, `_m`,`_n` = round 7, `_o`,`_p` = round 8, `_q`,`_r` = round 9, `_s`,`_t` = round 10, `_u`,`_v` = round 11, `_w`,`_x` = round 12, `_y`,`_z` = round 13; round 14, 2026-09-28, has one change per property, id `_aa`; the agents of later rounds were told "
            "what the earlier rounds had produced and asked for something different; round 4 was asked to stay strictly inside the quantifier text, "
            "round 5 to look for the least obvious failure, round 6 to prefer code no earlier change had touched, round 7 to look for interactions of two features and boundary values, round 8 to write refactorings and small features that drop something the old code did implicitly, round 9 to start from a realistic user model, round 10 to look at life cycles, rejected operations, returned objects and defaults, round 11 to write performance optimisations, round 12 to look for cross-talk between objects that should be independent, round 13 to write MINIMAL mutations: one token or one short expression, as a mutation-testing tool would, round 14 - which was told nothing about earlier rounds - to prefer two cooperating sites that each look fine alone, rarely taken branches and alternative call forms). Each passes the 110 tests, and its demonstration fails with the change and passes without it "
            "(re-confirmed by `tools/seedcheck.py import`). `tools/seedcheck.py run` applies a patch to `/repo`, runs the property's quick check "
            "and undoes it (`git checkout -- .`); `run --scratch` does the same on a scratch copy (`VERIF_REPO`) so that runs can go in parallel. "
            f"**{own} of the {total} are detected by the quick check of their own property** (`result_quick.json`, current checks), {other} by the check of the "
            f"property whose defect class it is (`C17_j` by C04, `C07_r` by C18, `C07_x` by C14 and C15, `C15_z` by C07); the {outside} that are not detected need a "
            "situation outside the property's quantifier (one is below the numeric resolution of the specification) and are marked in the table" + (f"; {lost} (`C19_e`) is inside the quantifier and currently NOT detected - an open gap of the C19 driver, see its row. " if lost else ". ") +
            "The checks as they stood when a round arrived missed " + ", ".join(f"{firsts[r]} of round {r}" for r in sorted(firsts)) + " (`result_first.json`); each miss was a gap in what the *drivers* "
            "exercised, closed as noted - the specifications' obligations were not changed for any of them and no check was loosened. "
            "Two patches (`C05_b`, `C05_c`) were re-based onto the hook commit (`patch_before_hook.diff` keeps the original).\n\n"
            "| id | change | needs | detected by | first version of the checks |\n|---|---|---|---|---|\n")
    text = head + "\n".join(rows) + "\n"
    p = os.path.join(VERIF, "DESIGN.md")
    s = open(p).read()
    s2 = re.sub(r"\n### 11\.5 Independently seeded changes.*?(?=\n---\n\n## Appendix A)", text.rstrip("\n") + "\n", s, flags=re.S)
    if s2 == s and "### 11.5" not in s:
        s2 = s.replace("\n---\n\n## Appendix A", text + "\n---\n\n## Appendix A", 1)
    open(p, "w").write(s2)
    print(len(rows), "rows")


if __name__ == "__main__":
    main()
