#!/venv/bin/python
"""Seeded-change bookkeeping (developer tool; not part of any registered check).

  seedcheck.py import <worktree> <Cxx> <a|b>     verify a sub-agent's delivery in ITS scratch worktree (suite passes with the change,
                                                  demo fails with / passes without) and copy it to /verif/seeded/<Cxx>_<a|b>/
  seedcheck.py run [<seed dir> ...] [--tier quick] [--checks C01,C02]
                                                  apply each seeded patch to /repo, run the check(s), undo (git checkout), record the
                                                  outcome in seeded/<id>/result.json.  Evidence and replays of these runs go to a scratch dir.
"""
import json
import os
import shutil
import subprocess
import sys
import tempfile
import time

VERIF = os.path.dirname(os.path.dirname(os.path.abspath(__file__)))
SEEDED = os.path.join(VERIF, "seeded")
PY = "/venv/bin/python"


def sh(cmd, cwd=None, env=None, timeout=3600):
    e = dict(os.environ)
    if env:
        e.update(env)
    p = subprocess.run(cmd, shell=True, cwd=cwd, env=e, stdout=subprocess.PIPE, stderr=subprocess.STDOUT, text=True, timeout=timeout)
    return p.returncode, p.stdout


def do_import(wt, pid, which, dest=None):
    d = os.path.join(wt, "deliver")
    patch = os.path.join(d, f"mutant_{which}.diff")
    demo = os.path.join(d, f"demo_{which}.py")
    meta = json.load(open(os.path.join(d, "meta.json"))).get(which, {})
    ran = []
    rc, out = sh("git status --porcelain -- ECAgent", cwd=wt)
    if out.strip():
        sh("git checkout -- ECAgent", cwd=wt)
    env = {"ECAGENT_ROOT": wt, "PYTHONDONTWRITEBYTECODE": "1"}
    rc0, o0 = sh(f"{PY} {demo}", cwd=wt, env=env)
    ran.append(f"demo on unchanged tree: exit {rc0}")
    rc, out = sh(f"git apply {patch}", cwd=wt)
    if rc != 0:
        print("patch does not apply:", out[-500:])
        return False
    try:
        rct, ot = sh(f"{PY} -m pytest -q -p no:cacheprovider --timeout=900 tests 2>&1 | tail -3", cwd=wt, env={"PYTHONDONTWRITEBYTECODE": "1"})
        ran.append("test-suite with the change: " + ot.strip().splitlines()[-1])
        rc1, o1 = sh(f"{PY} {demo}", cwd=wt, env=env)
        ran.append(f"demo with the change: exit {rc1}")
        _, changed = sh("git diff --stat -- . | tail -1", cwd=wt)
    finally:
        sh("git checkout -- ECAgent", cwd=wt)
    ok = rc0 == 0 and rc1 != 0 and "110 passed" in ot and "failed" not in ot
    print(pid, which, "OK" if ok else "REJECTED", "|", "; ".join(ran))
    if not ok:
        print(o0[-300:], o1[-300:])
        return False
    dst = os.path.join(SEEDED, f"{pid}_{dest or which}")
    os.makedirs(dst, exist_ok=True)
    shutil.copy(patch, os.path.join(dst, "patch.diff"))
    shutil.copy(demo, os.path.join(dst, "demo.py"))
    json.dump({"property": pid, "what": meta.get("what", ""), "needs": meta.get("needs", ""),
               "origin": "independent sub-agent given only the property text and a scratch worktree",
               "confirmed": ran, "files_changed": changed.strip()}, open(os.path.join(dst, "meta.json"), "w"), indent=1)
    return True


def do_run_scratch(dirs, tier, checks, tag):
    """Like do_run, but on a scratch COPY of /repo (VERIF_REPO), so that /repo is never touched and runs may go in parallel."""
    for d in dirs:
        d = os.path.abspath(d)
        name = os.path.basename(d.rstrip("/"))
        meta = json.load(open(os.path.join(d, "meta.json")))
        pids = checks or [meta["property"]]
        scratch = tempfile.mkdtemp(prefix="verif-seed-")
        tree = os.path.join(scratch, "tree")
        sh(f"rsync -a --exclude .git /repo/ {tree}/")
        rc, out = sh(f"patch -p1 -s < {os.path.join(d, 'patch.diff')}", cwd=tree)
        if rc != 0:
            print(name, "patch does not apply:", out[-300:])
            shutil.rmtree(scratch, ignore_errors=True)
            continue
        res = {"tier": tier, "checks": {}, "mode": "scratch copy of /repo"}
        try:
            for pid in pids:
                t0 = time.time()
                rc, out = sh(f"./check {pid} --tier {tier}", cwd=VERIF,
                             env={"VERIF_REPO": tree, "VERIF_EVIDENCE_DIR": scratch, "VERIF_REPLAY_DIR": scratch})
                viol = [ln for ln in out.splitlines() if ln.startswith("VIOLATION")]
                why = [ln.strip()[:300] for ln in out.splitlines() if ln.strip().startswith("!!")][:2]
                res["checks"][pid] = {"exit": rc, "violation_lines": len(viol), "first_reason": why, "wall_s": round(time.time() - t0, 1)}
        finally:
            shutil.rmtree(scratch, ignore_errors=True)
        det = [p for p, r in res["checks"].items() if r["exit"] == 1 and r["violation_lines"]]
        res["detected_by"] = det
        json.dump(res, open(os.path.join(d, f"result_{tag}.json"), "w"), indent=1)
        print(name, "DETECTED by " + ",".join(det) if det else "MISSED", {p: r["exit"] for p, r in res["checks"].items()}, flush=True)
    return 0


def do_run(dirs, tier, checks):
    rc, out = sh("git status --porcelain", cwd="/repo")
    if out.strip():
        print("refusing: /repo has uncommitted changes:\n" + out)
        return 2
    results = []
    for d in dirs:
        d = os.path.abspath(d)
        name = os.path.basename(d.rstrip("/"))
        meta = json.load(open(os.path.join(d, "meta.json")))
        pids = checks or [meta["property"]]
        scratch = tempfile.mkdtemp(prefix="verif-seed-")
        res = {"tier": tier, "checks": {}}
        rc, out = sh(f"git apply {os.path.join(d, 'patch.diff')}", cwd="/repo")
        if rc != 0:
            print(name, "patch does not apply to /repo:", out[-300:])
            continue
        try:
            for pid in pids:
                t0 = time.time()
                rc, out = sh(f"./check {pid} --tier {tier}", cwd=VERIF, env={"VERIF_EVIDENCE_DIR": scratch, "VERIF_REPLAY_DIR": scratch})
                viol = [ln for ln in out.splitlines() if ln.startswith("VIOLATION")]
                why = [ln.strip()[:300] for ln in out.splitlines() if ln.strip().startswith("!!")][:2]
                res["checks"][pid] = {"exit": rc, "violation_lines": len(viol), "first_reason": why, "wall_s": round(time.time() - t0, 1)}
        finally:
            sh("git checkout -- .", cwd="/repo")
            shutil.rmtree(scratch, ignore_errors=True)
        det = [p for p, r in res["checks"].items() if r["exit"] == 1 and r["violation_lines"]]
        res["detected_by"] = det
        json.dump(res, open(os.path.join(d, f"result_{tier}.json"), "w"), indent=1)
        results.append((name, det, {p: r["exit"] for p, r in res["checks"].items()}))
        print(name, "DETECTED by " + ",".join(det) if det else "MISSED", {p: r["exit"] for p, r in res["checks"].items()}, flush=True)
    rc, out = sh("git status --porcelain", cwd="/repo")
    assert not out.strip(), "/repo not clean after seeded runs"
    return 0


def main():
    a = sys.argv[1:]
    if a and a[0] == "import":
        sys.exit(0 if do_import(a[1], a[2], a[3], a[4] if len(a) > 4 else None) else 1)
    if a and a[0] == "run":
        tier = "quick"
        checks = None
        dirs = []
        scratch_tag = None
        it = iter(a[1:])
        for x in it:
            if x == "--scratch":
                scratch_tag = next(it)
            elif x == "--tier":
                tier = next(it)
            elif x == "--checks":
                checks = next(it).split(",")
            else:
                dirs.append(x)
        if not dirs:
            dirs = sorted(os.path.join(SEEDED, x) for x in os.listdir(SEEDED) if os.path.isdir(os.path.join(SEEDED, x)))
        if scratch_tag:
            sys.exit(do_run_scratch(dirs, tier, checks, scratch_tag))
        sys.exit(do_run(dirs, tier, checks))
    print(__doc__)
    sys.exit(2)


if __name__ == "__main__":
    main()
