#!/bin/sh
# import every delivered, not yet imported mutant from /tmp/wt/*/deliver and evaluate it (quick tier)
cd /verif
for wt in /tmp/wt/C??; do
  p=$(basename $wt)
  [ -f $wt/deliver/meta.json ] || continue
  for w in a b; do
    [ -f $wt/deliver/mutant_$w.diff ] || continue
    d=$w
    if [ -d $wt/deliver_round1 ]; then if [ $w = a ]; then d=c; else d=d; fi; fi
    if [ -d $wt/deliver_round2 ]; then if [ $w = a ]; then d=e; else d=f; fi; fi
    if [ -d $wt/deliver_round3 ]; then if [ $w = a ]; then d=g; else d=h; fi; fi
    if [ -d $wt/deliver_round4 ]; then if [ $w = a ]; then d=i; else d=j; fi; fi
    if [ -d $wt/deliver_round5 ]; then if [ $w = a ]; then d=k; else d=l; fi; fi
    if [ -d $wt/deliver_round6 ]; then if [ $w = a ]; then d=m; else d=n; fi; fi
    if [ -d $wt/deliver_round7 ]; then if [ $w = a ]; then d=o; else d=p; fi; fi
    [ -d seeded/${p}_$d ] && continue
    tools/seedcheck.py import $wt $p $w $d | tail -1 | cut -c1-200
  done
done
for d in seeded/*/; do
  [ -f $d/result_quick.json ] && continue
  tools/seedcheck.py run $d 2>&1 | tail -1
done
