#!/usr/bin/env python3
"""Regenerates /verif/MANIFEST.json from the table below (kept in one place so it is always valid)."""
import json
import os

VERIF = os.path.dirname(os.path.dirname(os.path.abspath(__file__)))
BASE_OFF = ("cd /repo && env -u ECAGENT_VERIF_TRACE /venv/bin/python -m pytest -ra -q -p no:cacheprovider --timeout=900 "
            "--continue-on-collection-errors")
TRUST = ("Trusted base: TLC 1.8.0 (and the CommunityModules Json/IOUtils readers), the trace specifications' reading of the "
         "statement (DESIGN.md 3.2 lists every place where the specification is deliberately loose), the drivers' projection of the "
         "public API into events, CPython; bounded by the constants of the .cfg files and the driver alphabets named in the evidence.")

CHECKS = {
 "C01": ("Scheduler", "6 C01", "TLC explores every add/remove/step history of Scheduler.tla over 4-5 system objects (two sharing an id) x 3-5 "
         "priority levels with the code's insertion algorithm and checks queue order = (priority desc, registration order) as an invariant "
         "(negative control: >= in the insertion loop is refuted). Every edge of a dumped state graph is replayed on the real SystemManager, "
         "and all registration permutations plus seeded random histories are recorded from the real code; TLC validates every trace against "
         "Scheduler_Trace.tla (each timestep must satisfy StepOK: exactly the eligible systems, in rank order; rejected add/remove change nothing). "
         "The repository's own tests run under the env-guarded tracer and every recorded scheduler operation is validated transition-wise "
         "(Scheduler_Suite.tla). Thorough tier: Apalache discharges the inductive step of the insertion algorithm for arbitrary integer priorities."),
 "C02": ("Scheduler", "6 C02", "TLC checks over a window alphabet (start -2..3, end incl. end<start and forever, freq 1..3), clocks 0..7, late registration "
         "and requests of 1..3 steps that the code's window test equals the declarative one, that a timestep runs exactly the eligible systems and "
         "that the clock moves by one per step only at the end of a step (negative control: t % freq). Window sweeps and random histories through "
         "Model.execute(n) / execute_systems are recorded from the real code and validated by TLC event by event (run events carry the clock seen). Liveness (no state constraint, fair scheduler "
         "steps): every request of n timesteps is worked off (C02_RequestEnds; negative control without fairness); its implementation side is the driver "
         "programs' budget - a program that does not end is a reported `runaway` event."),
 "C05": ("Scheduler", "6 C05", "TLC explores every script (remove each/self, add new/twin at each level, complete) at every position over 3-4 systems x 2 levels "
         "with the snapshot iteration of the repaired code (1.2M-28M states) and checks NoRerun/StayersOnce/StayersOrder/RunOnlyRegistered at every EndStep; "
         "the original live-list iteration is the negative control. The same scenario product and random mutating histories are executed on the real "
         "scheduler with scripted systems; TLC judges each run event (RunOK) and each finished timestep (StepOK)."),
 "C06": ("Scheduler", "6 C06", "TLC explores the completer at every position and clock, completion from outside, and later requests/registrations, checking "
         "status is final, nothing runs after completion and later requests change nothing. The same products and random histories are executed on the "
         "real Model; TLC validates is_running/bool/clock/run events after every call."),
 "C03": ("World", "6 C03", "World.tla models the component pools exactly as the code maintains them (register on join, deregister on leave, manual calls) next to the "
         "declarative listing Ideal(m,T); TLC shows pool = Ideal for every history of sanctioned operations over 2 models x agents x,x,y x 2 types, and that every "
         "break of the mirror is caused by one of the named deviation actions F1/F2/F3/F6 (known findings; negative controls). Graph walks and random histories in "
         "plain/continuous/grid/line/2-D worlds are judged by TLC: the listing, its 'none' form and the environment order must equal the specification state after "
         "every call; traces needing only listed deviations print KNOWN-FINDING, anything else is a violation. The population and listing operations recorded by "
         "the tracer while the repository's tests run are validated transition-wise (Population_Suite.tla). Histories that use the low-level "
         "register/deregister calls on their own (also on agents that are not resident) are validated too: what such a call does to the mirror is tagged RAW "
         "and tolerated, every later operation must be the specification's step from the state reached (World!JoinHalfway)."),
 "C04": ("World", "6 C04", "TLC explores join/leave/lookup with every error path (duplicate id, unknown id, out-of-bounds placement per axis and side) enabled in every "
         "reachable state of plain, continuous and grid worlds (rejected actions are UNCHANGED vars by construction; one-per-id, leave-always-enabled as invariants). "
         "Every edge of the error-injection graph is replayed on real environments with lookups of every id after each step; TLC compares len/iteration/lookup/listing "
         "and every agent's component set after every call."),
 "C08": ("World", "6 C08", "Per-axis kernels (Clamp, Wrap, InRange) are model-checked for containment and exactness over all positions/deltas up to multi-lap wraps; "
         "World.tla places and moves agents in grid/continuous worlds with non-cubic extents (incl. 0) and wrap on/off. Graph walks and random add/move/move_to/remove "
         "histories on SpaceWorld/DiscreteWorld/LineWorld/GridWorld are judged by TLC: every agent's xyz() after every call must equal the specification's position. "
         "TLAPS proves the kernel lemmas for all integers; saturation is also checked for non-dyadic float extents (must land exactly on the edge); the "
         "spatial operations recorded by the tracer while the repository's tests run are validated transition-wise (World_Suite.tla)."),
 "C12": ("World", "6 C12", "TLC checks that the code's min/max box equals the declarative per-axis leeway box on every reachable placement x query alphabet (negative "
         "controls: box ignoring per-axis leeway; plain box in a wrapping world = finding F5). Random populations and queries on real worlds are judged by TLC "
         "against the seam-aware definition; an answer equal to the plain box in a wrapping world is KNOWN-FINDING F5, any other difference a violation."),
 "C13": ("World", "6 C13", "TLC checks the code's filter algorithm equal to the declarative Match over every population of 3 agents x 2 types x tags {0,1,7} and all "
         "templates/tag filters (negative control: `if tag:`). On real environments get_agents must equal the filter in joining order, 200 reseeded random picks must "
         "cover exactly the match set, shuffle must be a permutation of it, the returned lists are mutated by the driver and the environment must stay unchanged."),
 "C09": ("Grid", "6 C09", "Grid.tla defines the cell table, the id formula and get_cell's range test as the code computes them; TLC checks injectivity, range 0..cells-1, "
         "table inverse and exact bounds for all 125 shapes 0..4^3 (negative controls: raw-extent id formula = repaired defect D3, raw-extent range test = D1). "
         "Exhaustive binding: every shape 0..3^3 (thorough 0..5^3) as DiscreteWorld/LineWorld/GridWorld, id of every cell, the world's position table, get_cell "
         "with two distinguishing cell components at every coordinate inside and one step outside; TLC judges every answer."),
 "C10": ("Grid", "6 C10", "TLC checks for all shapes 0..3^3 (thorough 0..4^3), all centres, radii 0..7(9), both flags that the code's clipped triple loop equals the metric "
         "ball in ascending cell order for Chebyshev and Manhattan distance, that the id form denotes the same cells, symmetry and Neumann-in-Moore (negative "
         "controls: <= r+1, raw id formula). Every query of that space is executed on real worlds in 12 representations (centre as id/tuple/position component "
         "with offsets, tuple/id return, specific/generic entry point) and compared by TLC with the Ball it computes."),
 "C11": ("Grid", "6 C11", "TLC explores add/remove/mutate-source histories over names x source kinds x shapes and checks each column equals its source's value per cell "
         "and that other columns and the cell set are untouched. Graph walks and random histories on real worlds (callable, list, numpy array mutated afterwards, "
         "ConstantGenerator, LookupGenerator with a table of the world's dimensionality) log all columns after each call; TLC compares. LookupGenerator on "
         "LineWorld/GridWorld raising is KNOWN-FINDING F4."),
 "C19": ("Tags", "6 C19", "Tags.tla: per library the sequence of tag names in id order; TLC explores add histories over 2 local libraries + the global one and ordinary/"
         "duplicate/NONE/reserved/arbitrary names (274k states): ids dense from NONE=0, name<->id bijection, next id on acceptance, libraries independent; the "
         "original overwrite behaviour (defects D4/D7) is the negative control. Graph walks and random histories run on real TagLibrary objects and, for the "
         "module-level library, in a fresh interpreter per history; after every add_tag TLC compares itemize/len/get_tag_name(-1..len+1)/attribute lookup of "
         "every library. Reserved names are computed from the live objects."),
 "C20": ("AgentClass", "6 C20", "AgentClass.tla: class components and default tag per class of the hierarchy Agent<-Environment, Agent<-A<-A1, Agent<-B, instances with own "
         "components; TLC checks isolation (an action changes class-level state of at most one class), default tag of the instance's own class, explicit tag wins, "
         "class/instance separation (negative control: Agent's default for everybody = repaired defect D6). Graph walks and random histories on fresh subclasses "
         "created with type(); after every call TLC compares comps/len/contains/Cls[T]/tag of all five classes and tag/comps of every instance."),
 "C14": ("Batch", "6 C14", "Batch.tla: the declaration machine of ParameterList and two definitions of the product (right recursion with the first parameter slowest = the "
         "statement; left fold = itertools.product as the code calls it); TLC checks them equal, the size formula, every name in every combination and "
         "lexicographic order for every declaration history over 3 names x 15 value shapes (scalars, strings, empty/singleton/repeated lists, tuple, range, "
         "numpy array). Graph walks and random histories on real ParameterList objects (constructor and incremental API, non-string and duplicate names, "
         "returned dictionaries modified between builds); TLC compares every build with Product(decl)."),
 "C15": ("Batch", "6 C15", "Batch.tla models the pool: tasks handed out in order, workers finishing in any order, results collected in completion order, a failing task "
         "raising; TLC enumerates every schedule (3 workers x 4 tasks, failures at positions 2 and 4, serial) and checks exactly-once, no duplicates, serial "
         "order, error surfaces (negative control: dropped failure). Real batch_run calls on a self-identifying fixture model (records carry the parameters "
         "and the timesteps seen; empty record lists; two collectors) over random grids, repetitions, limits, process counts 1..cores with perturbed "
         "durations and a failing execution at every position; TLC compares the returned list (as sequence for one process, as bag otherwise) with "
         "RunRecords of every task, or demands the error. Liveness: with fair workers every batch ends, with all results or with the error (C15_BatchEnds; a "
         "batch that does not end in its own fresh interpreter is a reported runaway program)."),
 "C16": ("Batch", "6 C16", "Batch.tla: aggregates as exact rationals, BestIdx = first optimum, and the code's selection loop; TLC checks loop = BestIdx for every score table "
         "3x2 over {-2,0,1,2} with sentinel 1 x 8 modes (32k cases; negative control: sentinel-initialised loop = repaired defect D8). Real grid_search calls "
         "with table-driven score functions scaled by 1, 1/4 and 2**61 (beyond sys.maxsize), ties, every optimum position, processes 1,2,4(..cores); TLC checks "
         "parameters, individual scores, the aggregate (cross-multiplied rational) and the best index of every call."),
 "C17": ("Collectors", "6 C17", "Collectors.tla: a stepping model whose priority-0 system changes the population (join/leave/touch) before the collectors run; agent "
         "collectors with windows, per-agent functions returning values or nothing, composite functions and timestep; file collectors with the code's "
         "counter algorithm next to the declarative flush rule. TLC checks append-only records, no empty record, file o held = everything collected, "
         "flush exactly after every (write_count+1)-th collection, no duplicate line (negative control: <= in the flush test). Graph walks, a write_count x "
         "records-per-collection sweep and random histories run on real AgentCollector / FileCollector objects writing real temporary files; after EVERY "
         "timestep (= every stop point) TLC compares deep copies of all records, the file text and the held records."),
 "C18": ("Decode", "6 C18", "Decode.tla: the decoder as a program-counter machine over a description (hooks present or not, systems, agent groups of size n); every step logs "
         "what was called, whether it was handed the decoded model and how many systems/agents the model contained; TLC checks log = documented lifecycle "
         "for all 13188 descriptions with <= 2 systems and <= 2 groups of 0..2 agents and every hook subset (negative control: agents added after the loop). "
         "Exhaustive binding: each of those descriptions (plus random larger ones) is written to a JSON file and decoded by the real JsonDecoder with recording "
         "fixture classes, repeatedly and from two files in one process (entries with and without `module`, classes of one name in two modules); TLC compares "
         "the recorded log and the final model with ExpectedLog(desc). Liveness: decoding ends for every description (C18_Ends)."),
 "C07": ("Determinism", "6 C07", "Determinism.tla states C07 as a 2-safety property: two copies with the same seed interleaved with ambient perturbations and another model, "
         "generator uninterpreted (TLC enumerates all draw functions); own-generator draws keep the trajectories equal, ambient draws (negative control) do not. "
         "Binding: TLC's graph supplies interleaving schedules; scripted stochastic models (plain/grid/continuous, random picks, shuffles, moves, births and "
         "deaths, collector) run as two interleaved copies with reseeding/consumption of random and numpy.random and other models stepping in between, in fresh "
         "interpreters with PYTHONHASHSEED 0/1/12345/random and inside batch_run workers; the trace specification takes the first run of a (configuration, seed) "
         "as the definition of its trajectory and requires every other run to equal it step by step."),
}

TECH = "TLA+ specification model-checked with TLC; implementation traces (spec->code graph walks and code->spec drivers) validated by TLC against the trace specification"


def main():
    checks = []
    for pid, (module, ref, text) in sorted(CHECKS.items()):
        checks.append({
            "property_id": pid,
            "quick_cmd": f"./check {pid} --tier quick",
            "thorough_cmd": f"./check {pid} --tier thorough",
            "evidence_file": f"/verif/evidence/{pid}.json",
            "replay_cmd_template": f"./check {pid} --replay {{path}}",
            "engine": "tlc",
            "level_claimed": {"category": "model_checking", "text": text, "design_ref": f"DESIGN.md section {ref}"},
            "level_note": TRUST,
            "technique": TECH,
        })
    all_ids = [f"C{k:02d}" for k in range(1, 21)]
    na = [{"property_id": p, "reason": "no check registered"} for p in all_ids if p not in CHECKS]
    doc = {
        "version": 1,
        "setup_cmd": "./setup.sh",
        "hooks": {"guard": "ECAGENT_VERIF_TRACE", "enable": "checks drive the public API of /repo's working tree directly (sys.path, no build step); "
                  "harness/suite.py additionally runs the repository's own tests with ECAGENT_VERIF_TRACE=<file> so that ECAgent/_verif.py records "
                  "scheduler, spatial, population and component-listing operations with pre/post state for transition-wise validation",
                  "baseline_off_cmd": BASE_OFF, "source_commits": ["0a6f2e2", "d3bb345"], "add_only": True},
        "engines": [{"name": "tlc", "path": "/verif/harness/tlc.py", "serves_properties": sorted(CHECKS),
                     "kind_free_text": "TLC 1.8.0 explicit-state model checker on /verif/spec/*.tla; batched trace validation (harness/judge.py)"}],
        "checks": checks,
        "not_applicable": na,
        "notes": "Exit codes: 0 held, 1 violation (VIOLATION line), 2 machinery failure. known_findings.json lists recorded findings and repaired defects. "
                 "`./check drift` (not registered for any property, never alarms) covers behaviour outside the listed properties: composition of "
                 "Scheduler and World, deprecated aliases as refinements, further public API. seeded/ holds 540 independently produced breaking "
                 "changes with their demonstrations and the outcome of the checks on each (tools/seedcheck.py).",
    }
    with open(os.path.join(VERIF, "MANIFEST.json"), "w") as f:
        json.dump(doc, f, indent=1)


if __name__ == "__main__":
    main()
