#!/bin/sh
# Nothing to build: the harness is Python (stdlib) + TLA+ modules interpreted by the pre-installed TLC.
# Verifies that the tools the checks need are present, offline.
set -e
cd "$(dirname "$0")"
test -x /venv/bin/python
test -f /opt/veriftools/tla/tla2tools.jar
java -version >/dev/null 2>&1
/venv/bin/python -c "import sys; sys.path.insert(0, '/repo'); import ECAgent.Core, numpy, pandas"
chmod +x check
echo setup ok
